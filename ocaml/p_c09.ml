(* C09 model driver: replays a history on a pool of IMMUTABLE reference numbers (Model.rnum) and checks, after every
   step of the C driver, that
     (1) every slot's raw representation is a valid one (Io.value_of_token: isolating interval, sign caches),
     (2) every slot still DENOTES what the reference history says (rn_cmp = 0),
     (3) every observation (of the operation itself and of the battery re-read after every step) is the one
         computed from the reference,
     (4) a slot the operation does not assign only ever NARROWS (new interval inside the old one, same kind),
     (5) where the extracted state machine of coq/Refine.v models the operation (refine, comparison with a rational /
         integer / dyadic, sgn, comparison of two algebraic numbers, copy), the new representation is exactly the
         one the machine computes from the old representation.
   Output: CHECK ok | CHECK fail <first difference> | FUEL | SKIP. *)
open Model
open Io

exception Fail of string
exception Fuel
exception Skip of string
let fail fmt = Printf.ksprintf (fun s -> raise (Fail s)) fmt

let fuel = nat_of_int 4000
let ns = 6
let batq : rat list = [ (z_of_int (-7), z_of_int 5); (z_of_int 1, z_of_int 3); (z_of_int 3, z_of_int 2) ]

let some = function Some x -> x | None -> raise Fuel
let sg z = sgn_of_z z
let split c s = String.split_on_char c s
let q_of_string s = rat_of_q_string s

(* ---------------------------------------------------------------- parsing of printed representations (memoised) *)
type rep = { tok : string; kind : string; v : rnum;                 (* validated denotation *)
             lo : rat; hi : rat; f : z list option; sa : int; sb : int }   (* raw fields *)

let rep_cache : (string, (rep, string) result) Hashtbl.t = Hashtbl.create 1024
let parse_rep (tok : string) : rep =
  let r =
    match Hashtbl.find_opt rep_cache tok with
    | Some r -> r
    | None ->
      let r =
        try
          if String.length tok >= 4 && String.sub tok 0 4 = "BAD:" then Error ("corrupt structure " ^ tok) else
          match value_of_token tok with
          | (kind, XFin v) ->
            let parts = split ':' tok in
            (match kind, parts with
             | "a", [_; cs; lo; hi; sa; sb] ->
               let l = rat_of_dy_string lo and h = rat_of_dy_string hi in
               (* the library's own invariant (lp_algebraic_number_construct): the interval is shorter than 1 and
                  no integer lies strictly inside it - floor and ceiling are read off the end points *)
               if not (q_le h (q_add_integer (q_floor l, z_of_int 1) (z_of_int 1))) then
                 Error ("an integer lies strictly inside the isolating interval of " ^ tok)
               else
               Ok { tok; kind; v; lo = l; hi = h; f = Some (upoly_of_string cs);
                    sa = int_of_string sa; sb = int_of_string sb }
             | "a", _ -> Error ("algebraic representation without sign caches " ^ tok)
             | _ -> (match v with
                     | RQ q -> Ok { tok; kind; v; lo = q; hi = q; f = None; sa = 0; sb = 0 }
                     | _ -> Error ("unexpected " ^ tok)))
          | _ -> Error ("infinite value in the pool " ^ tok)
        with
        | Bad_value m -> Error m
        | Failure m -> Error ("unparsable " ^ tok ^ " (" ^ m ^ ")")
        | Not_found -> Error ("unparsable " ^ tok)
      in
      Hashtbl.replace rep_cache tok r; r
  in
  match r with Ok r -> r | Error m -> raise (Fail m)

(* ---------------------------------------------------------------- the reference pool *)
type slot = { vid : int; x : rnum }
let next_vid = ref 0
let fresh x = incr next_vid; { vid = !next_vid; x }

(* The expensive reference functions are memoised (pure functions of immutable arguments; the keys are the version of
   the reference number and the printed token).  The closures built from these tables are what the VERIFIED checker
   Model.check_step (coq/RefineCheck.v) is run with. *)
let raw_cache : (string, rnum) Hashtbl.t = Hashtbl.create 1024
let raw_toks : (rnum * string) list ref = ref []
(* the printed representation as an rnum, NOT normalised: RA f lo hi / RQ point *)
let raw_of (r : rep) : rnum =
  match Hashtbl.find_opt raw_cache r.tok with
  | Some x -> x
  | None ->
    let x = (match r.f with Some p -> RA (p, r.lo, r.hi) | None -> RQ r.lo) in
    Hashtbl.replace raw_cache r.tok x; raw_toks := (x, r.tok) :: !raw_toks; x

let cmp_cache : (int * int, z option) Hashtbl.t = Hashtbl.create 256
let cmpz (a : slot) (b : slot) : z option =
  match Hashtbl.find_opt cmp_cache (a.vid, b.vid) with
  | Some c -> c
  | None -> let c = rn_cmp fuel a.x b.x in Hashtbl.replace cmp_cache (a.vid, b.vid) c; c
let rcmp (a : slot) (b : slot) : int = sg (some (cmpz a b))
let floor_cache : (int, z option) Hashtbl.t = Hashtbl.create 64
let floorz (a : slot) : z option =
  match Hashtbl.find_opt floor_cache a.vid with
  | Some c -> c
  | None -> let c = rn_floor fuel a.x in Hashtbl.replace floor_cache a.vid c; c
let rfloor (a : slot) : string = string_of_z (some (floorz a))
let den_cache : (int * string, bool) Hashtbl.t = Hashtbl.create 1024
(* Model.same_number: the representation is valid (rn_valid) and rn_cmp with the reference number says 0 *)
let denotes (a : slot) (r : rep) : bool =
  match Hashtbl.find_opt den_cache (a.vid, r.tok) with
  | Some b -> b
  | None ->
    let b = same_number fuel (raw_of r) a.x in
    if not b && rn_cmp fuel (rn_norm (raw_of r)) a.x = None then raise Fuel;
    Hashtbl.replace den_cache (a.vid, r.tok) b; b

let kind_class k = match k with "a" | "p" -> "alg" | k -> k

(* ---------------------------------------------------------------- exact prediction by the extracted state machine *)
let dy_of_string (s : string) : z * n =
  let k = String.index s '/' in
  (z_of_string (String.sub s 0 k), n_of_string (String.sub s (k + 1) (String.length s - k - 1)))

let anum_of_tok (tok : string) : anum option =
  match split ':' tok with
  | ["a"; cs; lo; hi; sa; sb] ->
    Some { af = Some (upoly_of_string cs); aa = dy_of_string lo; ab = dy_of_string hi;
           asa = z_of_int (int_of_string sa); asb = z_of_int (int_of_string sb) }
  | ["p"; s] -> let d = dy_of_string s in Some { af = None; aa = d; ab = d; asa = Z0; asb = Z0 }
  | _ -> None

let dy_eq (a : z * n) (b : z * n) = sg (dyq_cmp a b) = 0
(* same representation up to the spelling of the dyadic end points and the sign/content of the polynomial *)
let anum_same (m : anum) (c : anum) : bool =
  (match m.af, c.af with
   | None, None -> true
   | Some p, Some q -> peqb p q
   | _ -> false)
  && dy_eq m.aa c.aa && dy_eq m.ab c.ab && sg m.asa = sg c.asa && sg m.asb = sg c.asb

let show_anum (a : anum) =
  let d (x, k) = string_of_z x ^ "/2^" ^ string_of_n k in
  (match a.af with None -> "point " | Some p -> "<" ^ string_of_upoly p ^ "> ") ^ "(" ^ d a.aa ^ ", " ^ d a.ab ^ ") signs " ^
  string_of_int (sg a.asa) ^ "," ^ string_of_int (sg a.asb)

let mfuel = nat_of_int 3000
let timing = (try Sys.getenv "C09_TIMING" <> "" with Not_found -> false)


(* ---------------------------------------------------------------- value of a polynomial at the reference numbers
   exact (Model.mp_eval_rn: towers of resultants) when that is cheap; otherwise an ENCLOSURE by exact rational
   interval arithmetic on isolating intervals refined until the enclosure is narrower than 2^-80 *)
let prec_bits = 80
let exact_limit = (try int_of_string (Sys.getenv "C09_EXACT") with _ -> 4)
let deg_of (x : rnum) = match x with RQ _ -> 1 | RA (p, _, _) -> int_of_nat (pdeg p)
let rec ipow b e = if e <= 0 then 1 else min 100000 (b * ipow b (e - 1))
let naive_cost (rho : n -> rnum) (p : mpoly) : int =
  List.fold_left (fun acc (mono, _) ->
      min 100000 (acc * List.fold_left (fun a (v, e) -> min 100000 (a * ipow (deg_of (rho v)) (int_of_n e))) 1 mono)) 1 p

let rec refine_n x k = if k = 0 then x else match x with RQ _ -> x | _ -> refine_n (rn_refine x) (k - 1)
(* refinements are shared between the evaluations of a run: (number, how often refined) *)
let refined_cache : (rnum * (int * rnum)) list ref = ref []
let refined (x : rnum) (k : int) : rnum =
  match x with
  | RQ _ -> x
  | _ ->
    (match List.find_opt (fun (y, _) -> y == x) !refined_cache with
     | Some (_, (k0, r)) when k0 >= k -> r
     | Some (_, (k0, r)) -> let r' = refine_n r (k - k0) in
       refined_cache := (x, (k, r')) :: List.filter (fun (y, _) -> y != x) !refined_cache; r'
     | None -> let r' = refine_n x k in refined_cache := (x, (k, r')) :: !refined_cache; r')
let iv_mul (a, b) (c, d) =
  let p1 = q_mul a c and p2 = q_mul a d and p3 = q_mul b c and p4 = q_mul b d in
  (q_min (q_min p1 p2) (q_min p3 p4), q_max (q_max p1 p2) (q_max p3 p4))
let iv_add (a, b) (c, d) = (q_add a c, q_add b d)
let rec iv_pow iv e = if e = 0 then ((z_of_int 1, z_of_int 1), (z_of_int 1, z_of_int 1)) else iv_mul iv (iv_pow iv (e - 1))
let enclosure (rho : n -> rnum) (p : mpoly) : rat * rat =
  let vars = List.sort_uniq compare (List.concat_map (fun (mono, _) -> List.map (fun (v, _) -> int_of_n v) mono) p) in
  let tiny = (z_of_int 1, pow2 (n_of_int prec_bits)) in
  let rec go (k : int) rounds =
    let cur = List.map (fun v -> (v, refined (rho (n_of_int v)) k)) vars in
    let iv v = let x = List.assoc (int_of_n v) cur in (rn_lo x, rn_hi x) in
    let e = List.fold_left (fun acc (mono, c) ->
        let t = List.fold_left (fun a (v, e) -> iv_mul a (iv_pow (iv v) (int_of_n e)))
            ((c, z_of_int 1), (c, z_of_int 1)) mono in
        iv_add acc t) ((Z0, z_of_int 1), (Z0, z_of_int 1)) p in
    if q_le (q_sub (snd e) (fst e)) tiny || rounds = 0 then e
    else go (k + 40) (rounds - 1) in
  go (prec_bits + 16) 12

type pval = Exact of rnum | Encl of rat * rat
let eval_ref (rho : n -> rnum) (p : mpoly) : pval =
  if naive_cost rho p <= exact_limit then Exact (some (mp_eval_rn fuel rho p)) else let (l, h) = enclosure rho p in Encl (l, h)
(* the sign the reference can vouch for: Some s, or None when an enclosure of width 2^-80 still contains 0 *)
let pval_sign = function
  | Exact x -> sg (rn_sgn x)
  | Encl (l, h) -> if sg (q_cmp l (Z0, z_of_int 1)) > 0 then 1 else if sg (q_cmp h (Z0, z_of_int 1)) < 0 then -1 else 0
let pval_holds (pv : pval) (v : rnum) : bool =
  match pv with
  | Exact x -> sg (some (rn_cmp fuel x v)) = 0
  | Encl (l, h) -> sg (rn_cmp_q v l) >= 0 && sg (rn_cmp_q v h) <= 0
let show_pval = function Exact x -> string_of_rnum x | Encl (l, h) -> "a number in [" ^ string_of_rat l ^ ", " ^ string_of_rat h ^ "]"

(* ---------------------------------------------------------------- the run *)
let run (toks : string list) (cout : string list) : string =
  refined_cache := []; raw_toks := []; Hashtbl.reset raw_cache; Hashtbl.reset cmp_cache; Hashtbl.reset floor_cache; Hashtbl.reset den_cache;
  let step = ref 0 and cur_op = ref "init" in
  try
    let (mode, pool_toks, poly_toks, ops) =
      match toks with
      | "c09" :: mode :: rest ->
        let rec take n l acc = if n = 0 then (List.rev acc, l) else match l with h :: t -> take (n - 1) t (h :: acc) | [] -> failwith "short case" in
        let (pool, rest) = take ns rest [] in
        let (polys, rest) = take 3 rest [] in
        (match rest with ";" :: ops -> (mode, pool, polys, ops) | _ -> failwith "no ; in case")
      | _ -> failwith "not a c09 case" in
    (* "O:-20": battery mode and LP_VALUE_APPROX_MIN_MAGNITUDE of the tree under test *)
    let magnitude = match split ':' mode with [_; k] -> int_of_string k | _ -> -20 in
    let floor_width = (z_of_int 1, pow2 (n_of_int (2 - magnitude))) in      (* 2^(magnitude - 2) *)
    let check_restored (what : string) (before : rep array) (after : rep array) =
      Array.iteri (fun i (a : rep) ->
          let b = before.(i) in
          if a.kind = "a" && b.kind = "a" then begin
            let wa = q_sub a.hi a.lo and wb = q_sub b.hi b.lo in
            if not (q_le (q_min wb floor_width) wa) then
              fail "%s: slot %d stays narrowed after the operation (%s, before %s): the remembered interval was not put back" what i a.tok b.tok
          end) after in
    let pool = Array.of_list (List.map (fun t -> fresh (rnum_of_token t)) pool_toks) in
    let polys = Array.of_list (List.map mpoly_of_string poly_toks) in
    let rho (extra : rnum option) (v : n) : rnum =
      let i = int_of_n v in
      if i < ns then pool.(i).x else match extra with Some r -> r | None -> RQ (Z0, z_of_int 1) in
    (* the C output as a token stream *)
    let out = ref cout in
    let next () = match !out with h :: t -> out := t; h | [] -> fail "C output ends early" in
    let expect s = let t = next () in if t <> s then fail "C output out of step: expected %s, got %s" s t in
    let read_reps () : rep array = Array.init ns (fun _ -> parse_rep (next ())) in
    (* ---- the verified checker: Model.check_step run with the memoised closures *)
    let slot_of (x : rnum) : slot option =
      let r = ref None in Array.iter (fun sl -> if sl.x == x then r := Some sl) pool; !r in
    let sn (r : rnum) (x : rnum) : bool =
      match List.assq_opt r !raw_toks, slot_of x with
      | Some t, Some sl -> denotes sl (parse_rep t)
      | _ -> same_number fuel r x in
    let cmpf (x : rnum) (y : rnum) : z option =
      match slot_of x, slot_of y with Some a, Some b -> cmpz a b | _ -> rn_cmp fuel x y in
    let flf (x : rnum) : z option = match slot_of x with Some a -> floorz a | None -> rn_floor fuel x in
    let pool_list () = Array.to_list (Array.map (fun sl -> sl.x) pool) in
    let vsteps = ref 0 in
    let vstep (what : string) (op : cop) (ob : cobs) (reps : rep array option) : unit =
      let it = { it_op = op; it_obs = ob;
                 it_reps = (match reps with None -> None | Some a -> Some (Array.to_list (Array.map raw_of a))) } in
      let pl = pool_list () in
      incr vsteps;
      match check_step sn cmpf flf fuel pl it with
      | Some pl' ->
        (* the reference pool of the driver IS the pool the verified checker returns *)
        List.iteri (fun k x -> if not (x == pool.(k).x) then
                       pool.(k) <- (match slot_of x with Some sl -> sl | None -> fresh x)) pl'
      | None ->
        if not (check_obs sn cmpf flf fuel pl op ob) then
          fail "%s: the verified checker (RefineCheck.check_step) rejects the observation" what
        else (match next_pool fuel pl op with
            | None -> raise Fuel
            | Some pl' ->
              (match reps with
               | Some a -> Array.iteri (fun i (r : rep) ->
                   if not (sn (raw_of r) (List.nth pl' i)) then
                     fail "%s: slot %d no longer denotes its number: now %s, reference %s" what i r.tok (string_of_rnum (List.nth pl' i))) a
               | None -> ());
              fail "%s: rejected by the verified checker" what) in
    let nat i = nat_of_int i in
    let check_reps (what : string) (reps : rep array) =
      Array.iteri (fun i r ->
          if not (denotes pool.(i) r) then
            fail "%s: slot %d no longer denotes its number: now %s, reference %s" what i r.tok (string_of_rnum pool.(i).x)) reps in
    let check_narrow (what : string) (before : rep array) (after : rep array) (assigned : int list) =
      Array.iteri (fun i (a : rep) ->
          if not (List.mem i assigned) then begin
            let b = before.(i) in
            if kind_class a.kind <> kind_class b.kind then fail "%s: slot %d changed its type from %s to %s" what i b.tok a.tok;
            if b.kind = "p" && a.kind = "a" then fail "%s: slot %d went from a point back to an interval: %s to %s" what i b.tok a.tok;
            if not (q_le b.lo a.lo && q_le a.hi b.hi) then
              fail "%s: slot %d got a WIDER interval although the step does not assign it: %s to %s" what i b.tok a.tok;
            (match b.f, a.f with
             | Some fb, Some fa ->
               if not (peqb fb fa) && pdiv_exact (ppp fb) (ppp fa) = None then
                 fail "%s: slot %d got a defining polynomial that does not divide the old one: %s to %s" what i b.tok a.tok
             | _ -> ())
          end) after in
    (* lp_value_hash_approx is a function of the NUMBER and the precision: whenever it is taken again - of the same slot
       before / after a collapsing query, of a copy, of an untouched copy, of the equal d: / q: / z: value - it must agree *)
    let hashes : (int * rnum * string * string) list ref = ref [] in
    let check_hash (who : string) (p : int) (x : rnum) (h : string) =
      match List.find_opt (fun (p', y, _, _) -> p' = p && sg (some (rn_cmp fuel y x)) = 0) !hashes with
      | Some (_, _, h0, who0) ->
        if h0 <> h then fail "%s: hash_approx(%d) is %s, but it was %s for the same number (%s)" who p h h0 who0
      | None -> hashes := (p, x, h, who) :: !hashes in
    let roots_seen : (int * int list * rnum list) list ref = ref [] in
    let evals_seen : (int * int list * rnum) list ref = ref [] in
    (* ---- init *)
    expect "init"; expect "|";
    let reps = ref (read_reps ()) in
    check_reps "initial pool" !reps;
    (* floor / ceiling of copies of the starting pool that nothing else ever touches: at the start and at the end *)
    let start_pool = Array.copy pool in
    let check_untouched what =
      Array.iteri (fun i (sl : slot) ->
          let fo = next () in let co = next () in
          let h0 = next () in let h6 = next () in
          check_hash (what ^ ": untouched copy of starting slot " ^ string_of_int i) 0 sl.x h0;
          check_hash (what ^ ": untouched copy of starting slot " ^ string_of_int i) 6 sl.x h6;
          let fe = rfloor sl and ce = string_of_z (some (rn_ceiling fuel sl.x)) in
          if fo <> fe then fail "%s: floor of the untouched copy of starting slot %d is %s, reference %s" what i fo fe;
          if co <> ce then fail "%s: ceiling of the untouched copy of starting slot %d is %s, reference %s" what i co ce) start_pool in
    expect "|"; check_untouched "initial pool";
    (* ---- steps *)
    List.iter (fun optok ->
        incr step; cur_op := optok;
        let t0 = Sys.time () in
        let what = Printf.sprintf "step %d (%s)" !step optok in
        expect "#";
        let before = !reps in
        let f = split ':' optok in
        let slot k = int_of_string (List.nth f k) in
        let assigned = ref [] in
        let vitem : (cop * cobs) ref = ref (CTouch, BNone) in
        let after_check : (rep array -> unit) ref = ref (fun _ -> ()) in
        let obs_sign name exp = let o = next () in if o <> string_of_int exp then fail "%s: %s is %s, reference says %d" what name o exp in
        (* exact prediction of the representation of the slots the state machine models; list of (slot, predicted) *)
        let predict : (int * anum) list option ref = ref (Some []) in
        let pred_one i (r : (anum * z) option) exp_obs =
          match r with
          | None -> predict := None
          | Some (a, o) ->
            if sg o <> exp_obs then fail "%s: the state machine of Refine.v observes %d, the reference %d" what (sg o) exp_obs;
            predict := Some [ (i, a) ] in
        (match f with
         | ["cmp"; _; _] ->
           let i = slot 1 and j = slot 2 in
           let e = rcmp pool.(i) pool.(j) in
           obs_sign "lp_value_cmp" e;
           vitem := (CCmp (nat i, nat j), BInt (z_of_int e));
           (match before.(i).kind, before.(j).kind with
            | ("a" | "p"), ("a" | "p") when i <> j ->
              (match anum_of_tok before.(i).tok, anum_of_tok before.(j).tok with
               | Some x, Some y ->
                 (* the gcd the library computed is read back from the result (oracle argument of the machine) *)
                 after_check := (fun after ->
                     let changed k = match before.(k).f, after.(k).f with Some a, Some b -> not (peqb a b) | _ -> false in
                     let g = match before.(i).f, before.(j).f with
                       | Some fi, Some fj ->
                         if changed i then (match after.(i).f with Some g -> g | None -> [])
                         else if changed j then (match after.(j).f with Some g -> g | None -> [])
                         else pgcd fi fj        (* nothing was reduced: the reference gcd decides which branch is right *)
                       | _ -> [] in
                     match an_cmp mfuel x y g with
                     | None -> ()
                     | Some ((x', y'), o) ->
                       if sg o <> e then fail "%s: the state machine of Refine.v observes %d, the reference %d" what (sg o) e;
                       List.iter (fun (k, (m : anum)) ->
                           match anum_of_tok after.(k).tok with
                           | Some c -> if not (anum_same m c) then
                               fail "%s: slot %d is %s, the state machine of Refine.v computes %s" what k after.(k).tok (show_anum m)
                           | None -> fail "%s: slot %d unparsable" what k) [ (i, x'); (j, y') ]);
                 predict := None
               | _ -> predict := None)
            | ("a" | "p"), _ | _, ("a" | "p") ->
              let (k, o, sgnflip) = if kind_class before.(i).kind = "alg" then (i, j, 1) else (j, i, -1) in
              (match anum_of_tok before.(k).tok, pool.(o).x with
               | Some x, RQ q -> pred_one k (an_cmp_q mfuel x q) (sgnflip * e)
               | _ -> predict := None)
            | _ -> ())
         | ["cz"; _; z] ->
           let i = slot 1 in let q = (z_of_string z, z_of_int 1) in
           let e = sg (rn_cmp_q pool.(i).x q) in
           obs_sign "cmp_integer" e;
           vitem := (CCmpQ (nat i, q), BInt (z_of_int e));
           (match anum_of_tok before.(i).tok with Some x -> pred_one i (an_cmp_q mfuel x q) e | None -> ())
         | ["cq"; _; qs] ->
           let i = slot 1 in let q = q_of_string qs in
           let e = sg (rn_cmp_q pool.(i).x q) in
           obs_sign "cmp_rational" e;
           vitem := (CCmpQ (nat i, q), BInt (z_of_int e));
           (match anum_of_tok before.(i).tok with Some x -> pred_one i (an_cmp_q mfuel x q) e | None -> ())
         | ["cd"; _; ds] ->
           let i = slot 1 in let q = rat_of_dy_string ds in
           let e = sg (rn_cmp_q pool.(i).x q) in
           obs_sign "cmp_dyadic_rational" e;
           vitem := (CCmpQ (nat i, q), BInt (z_of_int e));
           (match anum_of_tok before.(i).tok with Some x -> pred_one i (an_cmp_q mfuel x q) e | None -> ())
         | ["sg"; _] ->
           let i = slot 1 in
           let e = sg (rn_sgn pool.(i).x) in
           obs_sign "sgn" e;
           vitem := (CSgn (nat i), BInt (z_of_int e));
           (match anum_of_tok before.(i).tok with Some x -> pred_one i (an_cmp_q mfuel x (Z0, z_of_int 1)) e | None -> ())
         | ["fl"; _] ->
           let i = slot 1 in let o = next () in
           if o <> rfloor pool.(i) then fail "%s: floor is %s, reference says %s" what o (rfloor pool.(i));
           vitem := (CFloor (nat i), BInt (z_of_string o));
           (match anum_of_tok before.(i).tok with
            | Some x -> if string_of_z (an_floor x) <> o then fail "%s: floor is %s, the state machine of Refine.v computes %s" what o (string_of_z (an_floor x))
            | None -> ())
         | ["ce"; _] ->
           let i = slot 1 in let o = next () in
           let e = string_of_z (some (rn_ceiling fuel pool.(i).x)) in
           if o <> e then fail "%s: ceiling is %s, reference says %s" what o e;
           vitem := (CCeil (nat i), BInt (z_of_string o))
         | ["ii"; _] ->
           let i = slot 1 in let o = next () in
           let e = string_of_bool01 (some (rn_is_integer fuel pool.(i).x)) in
           if o <> e then fail "%s: is_integer is %s, reference says %s" what o e;
           vitem := (CIsInt (nat i), BBool (o = "1"))
         | ["ra"; _] ->
           (* lp_value_is_rational = "KNOWN to be rational": a function of the representation (plain rational, point,
              polynomial of degree 1).  Sound: 1 only for a rational number, and then lp_value_get_rational is the number.
              lp_algebraic_number_to_rational: the number itself when known rational, else within 2^-99 below it.  None of
              them may touch a slot (to_rational refines a copy). *)
           let i = slot 1 in let r = next () in let q1 = next () in let q2 = next () in
           let b = before.(i) in
           let known = (match b.kind, b.f with "a", Some p -> int_of_nat (pdeg p) = 1 | "a", None -> false | _ -> true) in
           if r <> string_of_bool01 known then
             fail "%s: lp_value_is_rational is %s for the representation %s" what r b.tok;
           if r = "1" then begin
             if not (some (rn_is_rational fuel pool.(i).x)) then fail "%s: is_rational answers 1 for an irrational number" what;
             if q1 = "-" || sg (rn_cmp_q pool.(i).x (q_of_string q1)) <> 0 then
               fail "%s: lp_value_get_rational gives %s, the number is %s" what q1 (string_of_rnum pool.(i).x)
           end;
           (match kind_class b.kind, q2 with
            | "alg", "-" -> fail "%s: no to_rational output" what
            | "alg", _ ->
              let q = q_of_string q2 in
              let c = sg (rn_cmp_q pool.(i).x q) in
              if r = "1" && c <> 0 then fail "%s: to_rational gives %s for the rational number %s" what q2 (string_of_rnum pool.(i).x);
              if c < 0 || sg (rn_cmp_q pool.(i).x (q_add q (z_of_int 1, pow2 (n_of_int 99)))) > 0 then
                fail "%s: to_rational gives %s, not within 2^-99 below the number %s" what q2 (string_of_rnum pool.(i).x)
            | _ -> ())
         | ["db"; _] ->
           let i = slot 1 in let o = next () in
           (match split ':' o with
            | ["q"; qs] ->
              let d = q_of_string qs in
              let eps = (z_of_int 1, pow2 (n_of_int 40)) in
              let mag = if sg (q_cmp d (Z0, z_of_int 1)) < 0 then q_neg d else d in
              let tol = if sg (q_cmp mag (z_of_int 1, z_of_int 1)) > 0 then q_mul eps mag else eps in
              if not (sg (rn_cmp_q pool.(i).x (q_sub d tol)) > 0 && sg (rn_cmp_q pool.(i).x (q_add d tol)) < 0) then
                fail "%s: to_double gives %s, which is not within 2^-40 (relative) of the number %s" what qs (string_of_rnum pool.(i).x)
            | _ -> fail "%s: to_double gives %s" what o)
         | ["rf"; _; k] ->
           let i = slot 1 in ignore (next ());
           (match anum_of_tok before.(i).tok with
            | Some x ->
              let rec it n x = if n = 0 then x else it (n - 1) (an_refine x) in
              predict := Some [ (i, it (int_of_string k) x) ]
            | None -> ())
         | ["ha"; _; prec] ->
           let i = slot 1 in let o = next () in
           check_hash (what ^ " on " ^ before.(i).tok) (int_of_string prec) pool.(i).x o;
           predict := None
         | ["mi"; _] ->
           let i = slot 1 in let o = next () in
           after_check := (fun after ->
               match split ':' o, after.(i).kind with
               | ["d"; ds], ("a" | "p") ->
                 let m = rat_of_dy_string ds in
                 if sg (q_cmp m (q_mid after.(i).lo after.(i).hi)) <> 0 then fail "%s: midpoint %s is not the midpoint of %s" what o after.(i).tok
               | ["-"], _ -> ()
               | _ -> fail "%s: midpoint %s of %s" what o after.(i).tok)
         | [("add" | "sub" | "mul" | "div") as o; _; _; _] ->
           let d = slot 1 and a = slot 2 and b = slot 3 in ignore (next ());
           if o = "div" && sg (rn_sgn pool.(b).x) = 0 then raise (Skip "division by zero");
           (* the reference result is computed by the verified checker (next_pool) when the step is checked *)
           vitem := ((match o with "add" -> CAdd (nat d, nat a, nat b) | "sub" -> CSub (nat d, nat a, nat b)
                                 | "mul" -> CMul (nat d, nat a, nat b) | _ -> CDiv (nat d, nat a, nat b)), BNone);
           assigned := [d]; predict := None
         | ["inv"; _; _] ->
           let d = slot 1 and a = slot 2 in ignore (next ());
           if sg (rn_sgn pool.(a).x) = 0 then raise (Skip "inverse of zero");
           vitem := (CInv (nat d, nat a), BNone); assigned := [d]; predict := None
         | ["neg"; _; _] ->
           let d = slot 1 and a = slot 2 in ignore (next ());
           vitem := (CNeg (nat d, nat a), BNone); assigned := [d]; predict := None
         | ["cp"; _; _] ->
           let d = slot 1 and a = slot 2 in ignore (next ());
           vitem := (CCopy (nat d, nat a), BNone); assigned := [d];
           after_check := (fun after ->
               (* a copy is field-for-field the original (which the copy operation itself must not have touched) *)
               if after.(d).tok <> before.(a).tok then fail "%s: the copy is %s, the original was %s" what after.(d).tok before.(a).tok)
         | ["rc"; _] ->
           let i = slot 1 in ignore (next ()); assigned := [i];
           after_check := (fun after -> if after.(i).tok <> before.(i).tok then fail "%s: reconstructed %s from a copy of %s" what after.(i).tok before.(i).tok)
         | ["ps"; _] ->
           let k = slot 1 in
           if naive_cost (rho None) polys.(k) <= exact_limit then begin
             (* exact: Model.mp_eval_rn inside the verified checker decides (check_obs, CPSgn) *)
             let o = next () in
             if not (List.mem o ["-1"; "0"; "1"]) then fail "%s: lp_polynomial_sgn is %s" what o;
             vitem := (CPSgn polys.(k), BInt (z_of_string o))
           end else begin
             let e = pval_sign (eval_ref (rho None) polys.(k)) in
             obs_sign "lp_polynomial_sgn" e
           end;
           predict := None; after_check := check_restored what before
         | ["pe"; _] ->
           let k = slot 1 in let o = next () in
           let t1 = Sys.time () in
           let huge = String.length o > 1500 in
           let exact = (not huge) && naive_cost (rho None) polys.(k) <= exact_limit in
           (* exact regime: Model.mp_eval_rn inside the verified checker decides (check_obs, CPEval) *)
           let e = if exact then Encl ((Z0, z_of_int 1), (Z0, z_of_int 1)) else eval_ref (rho None) polys.(k) in
           let t2 = Sys.time () in
           (* a result with a huge defining polynomial (degree 16, hundreds of digits) is not Sturm-validated here - that is
              the business of C10; it is only located: its interval must lie inside the reference enclosure *)
           let r = if not huge then parse_rep o else
               (match split ':' o with
                | ["a"; cs; lo; hi; _; _] ->
                  let l = rat_of_dy_string lo and h = rat_of_dy_string hi in
                  { tok = o; kind = "a"; v = RA (upoly_of_string cs, l, h); lo = l; hi = h; f = None; sa = 0; sb = 0 }
                | _ -> parse_rep o) in
           let t3 = Sys.time () in
           if exact then vitem := (CPEval polys.(k), BNum (raw_of r));
           let ok = if exact then true else if not huge then pval_holds e r.v else
               (match e with
                | Exact x -> sg (rn_cmp_q x r.lo) >= 0 && sg (rn_cmp_q x r.hi) <= 0
                | Encl (l, h) -> q_le r.lo h && q_le l r.hi) in
           if timing then Printf.eprintf "  pe: reference %.2fs, parse+validate result %.2fs, compare %.2fs (%s)\n%!" (t2 -. t1) (t3 -. t2) (Sys.time () -. t3) o;
           if not ok then fail "%s: lp_polynomial_evaluate gives %s, reference value %s" what o (show_pval e);
           (* repeated on an unchanged pool: exactly the same number *)
           let key = Array.to_list (Array.map (fun s -> s.vid) pool) in
           if not huge then
           (match List.find_opt (fun (k', key', _) -> k' = k && key' = key) !evals_seen with
            | Some (_, _, v0) -> if sg (some (rn_cmp fuel v0 r.v)) <> 0 then fail "%s: evaluation repeated on an unchanged pool gives another value: %s" what o
            | None -> evals_seen := (k, key, r.v) :: !evals_seen);
           predict := None; after_check := check_restored what before
         | ["pr"; _] ->
           let k = slot 1 in
           let n = int_of_string (next ()) in
           let rs = List.init n (fun _ -> (parse_rep (next ())).v) in
           let rec sorted = function a :: (b :: _ as t) -> sg (some (rn_cmp fuel a b)) < 0 && sorted t | _ -> true in
           if not (sorted rs) then fail "%s: isolated roots are not strictly increasing" what;
           let top = List.fold_left (fun m (mono, _) -> List.fold_left (fun m (v, _) -> max m (int_of_n v)) m mono) (-1) polys.(k) in
           List.iter (fun r ->
               (* a reported root must be a root: the polynomial vanishes there (top variable := root) *)
               let rho' v = if int_of_n v = top then r else rho None v in
               if pval_sign (eval_ref rho' polys.(k)) <> 0 then fail "%s: reported root %s is not a root" what (string_of_rnum r)) rs;
           let key = Array.to_list (Array.map (fun s -> s.vid) pool) in
           (match List.find_opt (fun (k', key', _) -> k' = k && key' = key) !roots_seen with
            | Some (_, _, rs0) ->
              if List.length rs0 <> n || not (List.for_all2 (fun a b -> sg (some (rn_cmp fuel a b)) = 0) rs0 rs) then
                fail "%s: root isolation repeated on an unchanged pool gives different roots" what
            | None -> roots_seen := (k, key, rs) :: !roots_seen);
           predict := None; after_check := check_restored what before
         | _ -> fail "unknown op %s" optok);
        (* ---- representations after the operation *)
        expect "|";
        let tk = ref (Sys.time ()) in
        let tick name = if timing then begin let t = Sys.time () in if t -. !tk > 0.5 then Printf.eprintf "  %s %.2fs\n%!" name (t -. !tk); tk := t end in
        tick "op";
        let after = read_reps () in
        tick "parse+validate reps";
        vstep what (fst !vitem) (snd !vitem) (Some after);
        tick "verified checker";
        check_reps what after;
        tick "denotation of reps";
        check_narrow what before after !assigned;
        !after_check after;
        (match !predict with
         | None -> ()
         | Some l ->
           (* slots the machine models: exactly the predicted representation; all others: untouched *)
           Array.iteri (fun i (a : rep) ->
               if not (List.mem i !assigned) then
                 match List.assoc_opt i l with
                 | Some m ->
                   (match anum_of_tok a.tok with
                    | Some c -> if not (anum_same m c) then fail "%s: slot %d is %s, the state machine of Refine.v computes %s" what i a.tok (show_anum m)
                    | None -> fail "%s: slot %d is %s, the state machine of Refine.v computes %s" what i a.tok (show_anum m))
                 | None -> if a.tok <> before.(i).tok then fail "%s: slot %d changed from %s to %s although the operation does not involve it" what i before.(i).tok a.tok) after);
        (* ---- battery *)
        expect "|";
        let bwhat = what ^ " battery" in
        for i = 0 to ns - 1 do
          let o = next () in let e = sg (rn_sgn pool.(i).x) in
          if o <> string_of_int e then fail "%s: sign of slot %d is %s, reference %d" bwhat i o e;
          vstep bwhat (CSgn (nat i)) (BInt (z_of_int e)) None
        done;
        for i = 0 to ns - 1 do
          let o = next () in
          if o <> rfloor pool.(i) then fail "%s: floor of slot %d is %s, reference %s" bwhat i o (rfloor pool.(i));
          vstep bwhat (CFloor (nat i)) (BInt (z_of_string o)) None
        done;
        for i = 0 to ns - 1 do for j = i + 1 to ns - 1 do
            let o = next () in let e = rcmp pool.(i) pool.(j) in
            if o <> string_of_int e then fail "%s: cmp(slot %d, slot %d) is %s, reference %d" bwhat i j o e;
            vstep bwhat (CCmp (nat i, nat j)) (BInt (z_of_int e)) None
          done done;
        for i = 0 to ns - 1 do List.iter (fun q ->
            let o = next () in let e = sg (rn_cmp_q pool.(i).x q) in
            if o <> string_of_int e then fail "%s: cmp(slot %d, %s) is %s, reference %d" bwhat i (string_of_rat q) o e;
            vstep bwhat (CCmpQ (nat i, q)) (BInt (z_of_int e)) None) batq done;
        tick "battery";
        expect "|";
        let after2 = read_reps () in
        tick "parse+validate reps after battery";
        vstep bwhat CTouch BNone (Some after2);
        check_reps bwhat after2;
        tick "denotation after battery";
        check_narrow bwhat after after2 [];
        if timing then Printf.eprintf "step %d %s %.2fs\n%!" !step optok (Sys.time () -. t0);
        reps := after2) ops;
    (match !out with "$" :: rest -> out := rest; check_untouched "end of the history" | _ -> fail "C output ends early");
    (match !out with
     | [] -> ()
     | ["LEAK"] -> fail "memory was leaked during the history (LeakSanitizer): something remembered was never released"
     | _ -> fail "C output has trailing tokens");
    "CHECK ok"
  with
  | Fail m ->
    let pre = "step " ^ string_of_int !step ^ " (" ^ !cur_op ^ ")" in
    if String.length m >= 5 && String.sub m 0 5 = "step " then "CHECK fail " ^ m else "CHECK fail " ^ pre ^ ": " ^ m
  | Skip m -> "SKIP " ^ m
  | Fuel -> "FUEL at step " ^ string_of_int !step ^ " (" ^ !cur_op ^ ")"
  | Bad_value m -> "CHECK fail step " ^ string_of_int !step ^ " (" ^ !cur_op ^ "): " ^ m
