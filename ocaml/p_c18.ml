(* C18 model driver: runs the history of the case on the extracted VarOrder model (repaired behaviour:
   write_reset) and prints the line the C driver must print.  `H?` = the property leaves the answer open
   (hash equality of polynomials with different denotations); gen/C18.py treats `?` as a wildcard.
   For gcd / resultant (whose values are C04's subject) the result is taken from the implementation's output and
   only its independence of the route (operands built under other orders vs. built afresh) is required. *)
open Model
open Io

(* concrete stand-ins for integer_hash / hash_pair: hash VALUES are never compared with the implementation *)
let hz (a : z) : n = n_of_int (Hashtbl.hash (ZA.to_string (ZA.abs (zarith_of_z a))))
let hp (x : n) (d : n) : n = n_of_int (0x9e3779b9 + int_of_n x + (int_of_n d lsl 6) + (int_of_n d lsr 2))

let nat i = nat_of_int i
let optvar s = if s = "-" then None else Some (n_of_string s)

(* one term, its powers in the order they are written (the order in which the C driver pushes them) *)
let term_of_text (s : string) : (n * n) list * z =
  match String.split_on_char '*' s with
  | [] -> failwith "empty term"
  | c :: pows ->
    let pw p =
      let k = String.index p '^' in
      (n_of_string (String.sub p 1 (k - 1)), n_of_string (String.sub p (k + 1) (String.length p - k - 1))) in
    (List.filter (fun (_, e) -> e <> N0) (List.map pw pows), z_of_string c)
(* term list in text order (what pio_new feeds to lp_polynomial_add_monomial one by one) *)
let terms_of_text (s : string) : ((n * n) list * z) list =
  if s = "0" then [] else List.map term_of_text (String.split_on_char '+' s)

exception Not_enabled of string

let run (toks : string list) (cout : string list) : string =
  (* the implementation's output, split into the groups that follow each ';' *)
  let cgroups =
    let rec go acc cur = function
      | [] -> List.rev (List.rev cur :: acc)
      | t :: r when t = ";" -> go (List.rev cur :: acc) [] r
      | t :: r when String.length t > 0 && t.[0] = ';' -> go (List.rev cur :: acc) [] r
      | t :: r -> go acc (t :: cur) r in
    match go [] [] cout with _ :: gs -> Array.of_list gs | [] -> [||] in
  let c_obj_text k i =
    (* text of object i as the implementation printed it after command k *)
    let objs = List.filter (fun t -> String.contains t '/') cgroups.(k) in
    let t = List.nth objs i in
    String.sub t 0 (String.index t '/') in
  let c_obj_flag k i =
    let objs = List.filter (fun t -> String.contains t '/') cgroups.(k) in
    let t = List.nth objs i in
    t.[String.length t - 1] in
  let s = ref state0 in
  let wr = write_reset in
  let doit (e : op) : obs =
    if not (enabled !s e) then raise (Not_enabled "step");
    let (s', o) = step hz hp wr !s e in
    s := s'; o in
  for i = 0 to 7 do ignore (doit (OPush (n_of_int i))) done;   (* pio_init *)
  let den i = to_mpoly (get !s (nat i)).pdata in
  let nobj () = List.length !s.sobjs in
  let prep i =
    let p = get !s (nat i) in
    if not p.pext && not (in_order !s.sord p.pdata) then ignore (doit (PEnsure (nat i))) in
  let buf = Buffer.create 256 in
  let dump () =
    List.iter (fun p ->
      Buffer.add_string buf (" " ^ string_of_mpoly (to_mpoly p.pdata) ^ "/" ^ string_of_bool01 (in_order !s.sord p.pdata)))
      !s.sobjs in
  let ix str = let i = int_of_string str in if i < 0 || i >= nobj () then failwith "bad index in case" else i in
  (try
    List.iteri (fun k tok ->
      Buffer.add_string buf (if k = 0 then ";" else " ;");
      let f = String.split_on_char ':' tok in
      (match f with
       | "ord" :: rest ->
         ignore (doit OClear);
         (match rest with
          | [l] when l <> "" -> List.iter (fun v -> ignore (doit (OPush (n_of_string v)))) (String.split_on_char ',' l)
          | _ -> ())
       | ["push"; v] -> ignore (doit (OPush (n_of_string v)))
       | ["pop"] -> ignore (doit OPop)
       | ["rev"] -> ignore (doit OReverse)
       | ["clear"] -> ignore (doit OClear)
       | ["top"; v] -> ignore (doit (OMakeTop (optvar v)))
       | ["bot"; v] -> ignore (doit (OMakeBot (optvar v)))
       | ["new"; t] -> ignore (doit (PNew (terms_of_text t)))
       | ["copy"; i] -> ignore (doit (PCopy (nat (ix i))))
       | ["fresh"; i] -> ignore (doit (PNew (den (ix i))))
       | ["ext"; i] -> ignore (doit (PSetExt (nat (ix i))))
       | ["assign"; i; j] -> ignore (doit (PAssign (nat (ix i), nat (ix j))))
       | ["swap"; i; j] -> ignore (doit (PSwap (nat (ix i), nat (ix j))))
       | ["ens"; i] -> ignore (doit (PEnsure (nat (ix i))))
       | ["hash"; i] -> ignore (doit (PHash (nat (ix i))))
       | ["vmove"; i] -> ignore (doit (PMoveOut (nat (ix i))))
       | [("add" | "sub" | "mul") as o; r; a; b] ->
         let r = ix r and a = ix a and b = ix b in
         prep a; prep b;
         let f = match o with "add" -> mp_add | "sub" -> mp_sub | _ -> mp_mul in
         ignore (doit (PBin ((fun _ x y -> f x y), nat r, nat a, nat b)))
       | ["addmul"; r; a; b] ->
         let r = ix r and a = ix a and b = ix b in
         prep a; prep b; prep r;
         (* lp_polynomial_add_mul cleans S as well *)
         ignore (doit (PCmp (nat r, nat r)));
         let dr = den r in
         ignore (doit (PBin ((fun _ x y -> mp_add dr (mp_mul x y)), nat r, nat a, nat b)))
       | [("gcd" | "res") as o; r; a; b] ->
         let r = ix r and a = ix a and b = ix b in
         prep a; prep b;
         let ok =
           if o = "gcd" then true
           else begin
             ignore (doit (PCmp (nat a, nat b)));     (* lp_polynomial_top_variable cleans both *)
             match top_var !s.sord (den a), top_var !s.sord (den b) with
             | Some x, Some y -> x = y
             | _, _ -> false
           end in
         if not ok then Buffer.add_string buf " X"
         else begin
           let res = mpoly_of_string (c_obj_text k r) in
           ignore (doit (PBin ((fun _ _ _ -> res), nat r, nat a, nat b)));
           (* the route check of the driver hashes the result (r is in order: its cleaning does nothing) *)
           if r <> a && r <> b then ignore (doit (PHash (nat r)));
           Buffer.add_string buf " R1"
         end
       | [("cont" | "pp" | "reductum") as o; r; a] ->
         let r = ix r and a = ix a in
         prep a;
         let da = den a in
         if da = [] || (o = "reductum" && top_var !s.sord da = None) then Buffer.add_string buf " X"
         else begin
           let res = mpoly_of_string (c_obj_text k r) in
           ignore (doit (PUn ((fun _ _ -> res), nat r, nat a)))
         end
       | ["lcm"; r; a; b] ->
         let r = ix r and a = ix a and b = ix b in
         prep a; prep b;
         if den a = [] || den b = [] then Buffer.add_string buf " X"
         else begin
           let res = mpoly_of_string (c_obj_text k r) in
           ignore (doit (PBin ((fun _ _ _ -> res), nat r, nat a, nat b)))
         end
       | ["submul"; r; a; b] ->
         let r = ix r and a = ix a and b = ix b in
         prep a; prep b; prep r;
         ignore (doit (PCmp (nat r, nat r)));
         let dr = den r in
         ignore (doit (PBin ((fun _ x y -> mp_sub dr (mp_mul x y)), nat r, nat a, nat b)))
       | ["mulc"; r; a; c] ->
         let r = ix r and a = ix a in
         prep a;
         ignore (doit (PUn ((fun _ p -> mp_scale (z_of_string c) p), nat r, nat a)))
       | ["shl"; r; a; n] ->
         let r = ix r and a = ix a in
         prep a;
         (match top_var !s.sord (den a) with
          | None -> Buffer.add_string buf " X"
          | Some _ ->
            ignore (doit (PUn ((fun ord p -> match top_var ord p with
                                             | None -> p
                                             | Some x -> mp_mul p (mp_var_pow x (n_of_string n))), nat r, nat a))))
       | [("neg" | "der") as o; r; a] ->
         let r = ix r and a = ix a in
         prep a;
         let f = if o = "neg" then (fun _ p -> mp_neg p)
                 else (fun ord p -> match top_var ord p with None -> [] | Some x -> mp_deriv x p) in
         ignore (doit (PUn (f, nat r, nat a)))
       | ["pow"; r; a; e] ->
         let r = ix r and a = ix a in
         prep a;
         ignore (doit (PUn ((fun _ p -> mp_pow p (nat (int_of_string e))), nat r, nat a)))
       | ["mono"; i; t] ->
         let i = ix i in
         prep i;
         let (m, c) = term_of_text t in
         ignore (doit (PAddMono (nat i, m, c)))
       | ["eq"; i; j] ->
         let i = ix i and j = ix j in
         prep i; prep j;
         if mp_eqb (den i) (den j) then
           (match doit (PEq (nat i, nat j)) with OBool b -> Buffer.add_string buf (" E" ^ string_of_bool01 b) | _ -> failwith "obs")
         else begin
           (* different polynomials: the answer must be 0, but whether lp_polynomial_eq got as far as the comparison
              (which re-orders external operands) depends on a hash collision, which the property leaves open.
              Both caches are filled; the re-ordering is taken from the implementation's output: if it shows an
              external operand of this call re-ordered, BOTH operands have been cleaned (lp_polynomial_cmp). *)
           ignore (doit (PHash (nat i))); ignore (doit (PHash (nat j)));
           let pending k = let p = get !s (nat k) in p.pext && not (in_order !s.sord p.pdata) in
           if (pending i && c_obj_flag k i = '1') || (pending j && c_obj_flag k j = '1') then ignore (doit (PCmp (nat i, nat j)));
           Buffer.add_string buf " E0"
         end
       | ["cmp"; i; j] ->
         let i = ix i and j = ix j in
         prep i; prep j;
         (match doit (PCmp (nat i, nat j)) with OBool b -> Buffer.add_string buf (" C" ^ string_of_bool01 b) | _ -> failwith "obs")
       | ["heq"; i; j] ->
         let i = ix i and j = ix j in
         let h1 = doit (PHash (nat i)) in
         let h2 = doit (PHash (nat j)) in
         if mp_eqb (den i) (den j) then
           (* the model itself must agree with its theorem *)
           (if h1 = h2 then Buffer.add_string buf " H1" else failwith "model hashes of equal polynomials differ")
         else Buffer.add_string buf " H?"
       | _ -> failwith ("unknown command " ^ tok));
      dump ()) toks;
    Buffer.contents buf
  with
  | Not_enabled w -> "MODEL-ERROR precondition of a step does not hold in the model (" ^ w ^ ")")
