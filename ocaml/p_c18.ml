(* C18 model driver: runs the history of the case on the extracted VarOrder model (repaired behaviour:
   write_reset) and prints the line the C driver must print.  `H?` = the property leaves the answer open
   (hash equality of polynomials with different denotations); gen/C18.py treats `?` as a wildcard.
   For gcd / resultant (whose values are C04's subject) the result is taken from the implementation's output and
   only its independence of the route (operands built under other orders vs. built afresh) is required. *)
open Model
open Io

(* concrete stand-ins for integer_hash / hash_pair: hash VALUES are never compared with the implementation *)
let hz (a : z) : n = n_of_int (Hashtbl.hash (ZA.to_string (ZA.abs (zarith_of_z a))))
let hp (x : n) (d : n) : n = n_of_int (0x9e3779b9 + int_of_n x + (int_of_n d lsl 6) + (int_of_n d lsr 2))

let nat i = nat_of_int i
let optvar s = if s = "-" then None else Some (n_of_string s)

(* one term, its powers in the order they are written (the order in which the C driver pushes them) *)
let term_of_text (s : string) : (n * n) list * z =
  match String.split_on_char '*' s with
  | [] -> failwith "empty term"
  | c :: pows ->
    let pw p =
      let k = String.index p '^' in
      (n_of_string (String.sub p 1 (k - 1)), n_of_string (String.sub p (k + 1) (String.length p - k - 1))) in
    (List.filter (fun (_, e) -> e <> N0) (List.map pw pows), z_of_string c)
(* term list in text order (what pio_new feeds to lp_polynomial_add_monomial one by one) *)
let terms_of_text (s : string) : ((n * n) list * z) list =
  if s = "0" then [] else List.map term_of_text (String.split_on_char '+' s)

exception Not_enabled of string

(* ------------------------------------------------------------------------------------------------ *)
(* cross-order cases (see harness/c18.c: xorder): the same operation under several orders must give the same
   denoted result.  Verdict by CHECK: exact reference where the reference model has one (add, sub, mul, derivative,
   cont*pp = A, resultant = Sylvester determinant, sign and value at the assignment = EvalSgnRef.ref_eval, real
   roots at rational assignments = RefAlg.rn_roots), agreement across the orders otherwise (gcd, lcm up to sign
   with gcd*lcm = +-A*B; prem and roots per main variable). *)
exception Timeout
let deadline = ref infinity
let _ = Gc.create_alarm (fun () -> if Sys.time () > !deadline then (deadline := infinity; raise Timeout))
let big = nat_of_int 4000

let order_of_digits (s : string) : order =
  { olist = (if s = "-" then [] else List.init (String.length s) (fun i -> n_of_int (Char.code s.[i] - 48))); otop = None; obot = None }
let split_bar (l : string list) : string list list =
  let rec go cur acc = function
    | [] -> List.rev (List.rev cur :: acc)
    | "|" :: t -> go [] (List.rev cur :: acc) t
    | h :: t -> go (h :: cur) acc t in
  go [] [] l
let norm_sign (p : mpoly) : mpoly = match p with (_, c) :: _ when sgn_of_z c < 0 -> mp_neg p | _ -> p
let eq_up_to_sign p q = mp_eqb (norm_sign p) (norm_sign q)
let tv o p = match top_var o p with None -> "t-" | Some x -> "t" ^ string_of_n x
let same_value (a : rnum) (b : rnum) = match rn_cmp big a b with Some c -> sgn_of_z c = 0 | None -> false
exception Fail of string
let fail fmt = Printf.ksprintf (fun s -> raise (Fail s)) fmt

let run_xorder (toks : string list) (cout : string list) : string =
  match toks with
  | _ :: op :: ta :: tb :: k :: rest ->
    let k = int_of_string k in
    let rec take n l = if n = 0 then [] else match l with [] -> [] | h :: t -> h :: take (n - 1) t in
    let rec drop n l = if n = 0 then l else match l with [] -> [] | _ :: t -> drop (n - 1) t in
    let orders = List.map order_of_digits (take k rest) in
    let vals = Array.of_list (drop k rest) in
    let a = mpoly_of_string ta in
    let b = if tb = "-" then [] else mpoly_of_string tb in
    let groups = split_bar cout in
    if List.length groups <> k then "CHECK fail: number of result groups" else
    (try
      deadline := Sys.time () +. 20.0;
      (* every group ends with the operand A as it is after the operation: same polynomial, in order *)
      let bodies = List.map (fun g ->
        match List.rev g with
        | last :: body when last = string_of_mpoly a ^ "/1" -> List.rev body
        | last :: _ -> fail "operand after the operation is `%s`, expected `%s/1`" last (string_of_mpoly a)
        | [] -> fail "empty group") groups in
      let og = List.combine orders bodies in
      let value_of x : rnum option =
        let i = int_of_n x in
        if i < Array.length vals && vals.(i) <> "none" then Some (rnum_of_token vals.(i)) else None in
      (match op with
       | "ar" ->
         List.iter (fun (_, g) ->
           if g <> [string_of_mpoly (mp_add a b); string_of_mpoly (mp_sub a b); string_of_mpoly (mp_mul a b)] then
             fail "add/sub/mul: `%s`" (String.concat " " g)) og
       | "gl" ->
         let res = List.map (fun (_, g) -> match g with
           | ["X"] -> if a = [] || b = [] then None else fail "X on non-zero operands"
           | [g; l] -> if a = [] || b = [] then fail "result on a zero operand" else Some (mpoly_of_string g, mpoly_of_string l)
           | _ -> fail "gl: malformed group") og in
         (match List.filter_map (fun x -> x) res with
          | [] -> ()
          | (g0, l0) :: more ->
            if not (eq_up_to_sign (mp_mul g0 l0) (mp_mul a b)) then fail "gcd * lcm <> +-A*B (gcd %s, lcm %s)" (string_of_mpoly g0) (string_of_mpoly l0);
            List.iter (fun (g, l) ->
              if not (eq_up_to_sign g g0) then fail "gcd depends on the order: %s vs %s" (string_of_mpoly g0) (string_of_mpoly g);
              if not (eq_up_to_sign l l0) then fail "lcm depends on the order: %s vs %s" (string_of_mpoly l0) (string_of_mpoly l)) more)
       | "rp" ->
         let seen = Hashtbl.create 8 in
         List.iter (fun (o, g) ->
           match g with
           | ta' :: tb' :: r ->
             if ta' <> tv o a || tb' <> tv o b then fail "main variables %s %s, expected %s %s" ta' tb' (tv o a) (tv o b);
             (match top_var o a, top_var o b, r with
              | Some x, Some y, [res; prem] when x = y ->
                let res = mpoly_of_string res and prem = mpoly_of_string prem in
                if not (mp_eqb res (mp_res_x x a b)) then
                  fail "resultant in x%s is %s, Sylvester determinant %s" (string_of_n x) (string_of_mpoly res) (string_of_mpoly (mp_res_x x a b));
                (match Hashtbl.find_opt seen x with
                 | None -> Hashtbl.add seen x prem
                 | Some p0 -> if not (mp_eqb p0 prem) then fail "prem in x%s depends on the order: %s vs %s" (string_of_n x) (string_of_mpoly p0) (string_of_mpoly prem))
              | Some x, Some y, _ when x = y -> fail "rp: malformed group"
              | _, _, ["X"] -> ()
              | _ -> fail "rp: X expected")
           | _ -> fail "rp: malformed group") og
       | "cpd" ->
         let seen = Hashtbl.create 8 in
         List.iter (fun (o, g) ->
           match g with
           | ta' :: r ->
             if ta' <> tv o a then fail "main variable %s, expected %s" ta' (tv o a);
             (match r with
              | ["X"] -> if a <> [] then fail "X on a non-zero operand"
              | [c; p; d] ->
                let c = mpoly_of_string c and p = mpoly_of_string p and d = mpoly_of_string d in
                if a = [] then fail "result on the zero polynomial";
                if not (mp_eqb (mp_mul c p) a) then fail "cont * pp <> A";
                (match top_var o a with
                 | None -> if d <> [] then fail "derivative of a constant"
                 | Some x ->
                   if int_of_n (mp_degree x c) <> 0 then fail "content mentions the main variable";
                   if not (mp_eqb d (mp_deriv x a)) then fail "derivative in x%s is %s" (string_of_n x) (string_of_mpoly d);
                   (match Hashtbl.find_opt seen x with
                    | None -> Hashtbl.add seen x c
                    | Some c0 -> if not (eq_up_to_sign c0 c) then fail "content in x%s depends on the order" (string_of_n x)))
              | _ -> fail "cpd: malformed group")
           | _ -> fail "cpd: malformed group") og
       | "se" ->
         let vl = List.map (fun x -> match value_of x with Some r -> (x, r) | None -> fail "unassigned variable") (mp_vars a) in
         let vl = List.filter (fun (_, r) -> match r with RQ _ -> true | _ -> false) vl
                  @ List.filter (fun (_, r) -> match r with RQ _ -> false | _ -> true) vl in
         let v = (match (if vl = [] then (match a with [] -> Some (RQ (z_of_int 0, z_of_int 1)) | [(_, c)] -> Some (RQ (c, z_of_int 1)) | _ -> None)
                         else ref_eval big vl a) with Some v -> v | None -> raise Timeout) in
         let s = "s" ^ string_of_int (sgn_of_z (rn_sgn v)) in
         List.iter (fun (_, g) ->
           match g with
           | [s1; value; s2] ->
             if s1 <> s || s2 <> s then fail "sgn %s / %s, reference %s" s1 s2 s;
             (match value_of_token value with
              | (_, XFin r) -> if not (same_value r v) then fail "evaluate gives %s, reference %s" value (string_of_rnum v)
              | _ -> fail "evaluate gives %s" value)
           | _ -> fail "se: malformed group") og
       | "ri" ->
         let first = ref None in
         List.iter (fun (o, g) ->
           match g with
           | ta' :: r ->
             if ta' <> tv o a then fail "main variable %s, expected %s" ta' (tv o a);
             (match top_var o a, r with
              | Some x, cnt :: roots when value_of x = None && cnt <> "X" ->
                if int_of_string cnt <> List.length roots then fail "root count";
                let rs = List.map rnum_of_token roots in
                (* increasing *)
                let rec incr = function
                  | r1 :: (r2 :: _ as t) -> (match rn_cmp big r1 r2 with Some c when sgn_of_z c < 0 -> incr t | _ -> false)
                  | _ -> true in
                if not (incr rs) then fail "roots not strictly increasing";
                (match !first with
                 | None -> first := Some rs
                 | Some r0 ->
                   if List.length r0 <> List.length rs || not (List.for_all2 same_value r0 rs) then
                     fail "real roots depend on the order: %d vs %d roots" (List.length r0) (List.length rs));
                (* reference when the other variables have rational values: substitute, isolate *)
                let others = List.filter (fun y -> y <> x) (mp_vars a) in
                let rat y = match value_of y with Some (RQ q) -> Some q | _ -> None in
                if List.for_all (fun y -> rat y <> None) others then begin
                  let zpow (b : z) (e : int) = let r = ref (z_of_int 1) in for _ = 1 to e do r := Z.mul !r b done; !r in
                  let deg = int_of_n (mp_degree x a) in
                  let cs = Array.make (deg + 1) (z_of_int 0) in
                  List.iter (fun (m, c) ->
                    let t = ref c and e = ref 0 in
                    List.iter (fun y ->
                      let (nu, de) = (match rat y with Some q -> q | None -> assert false) in
                      let ey = int_of_n (mono_deg y m) and my = int_of_n (mp_degree y a) in
                      t := Z.mul !t (Z.mul (zpow nu ey) (zpow de (my - ey)))) others;
                    e := int_of_n (mono_deg x m);
                    cs.(!e) <- Z.add cs.(!e) !t) a;
                  if Array.exists (fun c -> sgn_of_z c <> 0) cs then
                    (match rn_roots big (Array.to_list cs) with
                     | Some ref_roots ->
                       if List.length ref_roots <> List.length rs || not (List.for_all2 same_value ref_roots rs) then
                         fail "real roots: %d, reference %d (or different values)" (List.length rs) (List.length ref_roots)
                     | None -> ())
                end
              | Some x, ["X"] when value_of x <> None -> ()
              | None, ["X"] -> ()
              | _ -> fail "ri: X / roots mismatch")
           | _ -> fail "ri: malformed group") og
       | _ -> fail "unknown cross-order operation %s" op);
      deadline := infinity;
      "CHECK ok"
    with
    | Fail w -> deadline := infinity; "CHECK fail: " ^ w
    | Timeout -> deadline := infinity; "FUEL reference evaluation timed out"
    | Bad_value w -> deadline := infinity; "CHECK fail: " ^ w)
  | _ -> "UNKNOWN-OP"

let rec run (toks : string list) (cout : string list) : string =
  match toks with
  | "xorder" :: _ -> run_xorder toks cout
  | _ -> run_history toks cout
and run_history (toks : string list) (cout : string list) : string =
  (* the implementation's output, split into the groups that follow each ';' *)
  let cgroups =
    let rec go acc cur = function
      | [] -> List.rev (List.rev cur :: acc)
      | t :: r when t = ";" -> go (List.rev cur :: acc) [] r
      | t :: r when String.length t > 0 && t.[0] = ';' -> go (List.rev cur :: acc) [] r
      | t :: r -> go acc (t :: cur) r in
    match go [] [] cout with _ :: gs -> Array.of_list gs | [] -> [||] in
  let c_obj_text k i =
    (* text of object i as the implementation printed it after command k *)
    let objs = List.filter (fun t -> String.contains t '/') cgroups.(k) in
    let t = List.nth objs i in
    String.sub t 0 (String.index t '/') in
  let c_obj_flag k i =
    let objs = List.filter (fun t -> String.contains t '/') cgroups.(k) in
    let t = List.nth objs i in
    t.[String.length t - 1] in
  let s = ref state0 in
  let wr = write_reset in
  let doit (e : op) : obs =
    if not (enabled !s e) then raise (Not_enabled "step");
    let (s', o) = step hz hp wr !s e in
    s := s'; o in
  for i = 0 to 7 do ignore (doit (OPush (n_of_int i))) done;   (* pio_init *)
  let den i = to_mpoly (get !s (nat i)).pdata in
  let nobj () = List.length !s.sobjs in
  let prep i =
    let p = get !s (nat i) in
    if not p.pext && not (in_order !s.sord p.pdata) then ignore (doit (PEnsure (nat i))) in
  let buf = Buffer.create 256 in
  let dump () =
    List.iter (fun p ->
      Buffer.add_string buf (" " ^ string_of_mpoly (to_mpoly p.pdata) ^ "/" ^ string_of_bool01 (in_order !s.sord p.pdata)))
      !s.sobjs in
  let ix str = let i = int_of_string str in if i < 0 || i >= nobj () then failwith "bad index in case" else i in
  (try
    List.iteri (fun k tok ->
      Buffer.add_string buf (if k = 0 then ";" else " ;");
      let f = String.split_on_char ':' tok in
      (match f with
       | "ord" :: rest ->
         ignore (doit OClear);
         (match rest with
          | [l] when l <> "" -> List.iter (fun v -> ignore (doit (OPush (n_of_string v)))) (String.split_on_char ',' l)
          | _ -> ())
       | ["push"; v] -> ignore (doit (OPush (n_of_string v)))
       | ["pop"] -> ignore (doit OPop)
       | ["rev"] -> ignore (doit OReverse)
       | ["clear"] -> ignore (doit OClear)
       | ["top"; v] -> ignore (doit (OMakeTop (optvar v)))
       | ["bot"; v] -> ignore (doit (OMakeBot (optvar v)))
       | ["new"; t] -> ignore (doit (PNew (terms_of_text t)))
       | ["copy"; i] -> ignore (doit (PCopy (nat (ix i))))
       | ["fresh"; i] -> ignore (doit (PNew (den (ix i))))
       | ["ext"; i] -> ignore (doit (PSetExt (nat (ix i))))
       | ["assign"; i; j] -> ignore (doit (PAssign (nat (ix i), nat (ix j))))
       | ["swap"; i; j] -> ignore (doit (PSwap (nat (ix i), nat (ix j))))
       | ["ens"; i] -> ignore (doit (PEnsure (nat (ix i))))
       | ["hash"; i] -> ignore (doit (PHash (nat (ix i))))
       | ["vmove"; i] -> ignore (doit (PMoveOut (nat (ix i))))
       | [("add" | "sub" | "mul") as o; r; a; b] ->
         let r = ix r and a = ix a and b = ix b in
         prep a; prep b;
         let f = match o with "add" -> mp_add | "sub" -> mp_sub | _ -> mp_mul in
         ignore (doit (PBin ((fun _ x y -> f x y), nat r, nat a, nat b)))
       | ["addmul"; r; a; b] ->
         let r = ix r and a = ix a and b = ix b in
         prep a; prep b; prep r;
         (* lp_polynomial_add_mul cleans S as well *)
         ignore (doit (PCmp (nat r, nat r)));
         let dr = den r in
         ignore (doit (PBin ((fun _ x y -> mp_add dr (mp_mul x y)), nat r, nat a, nat b)))
       | [("gcd" | "res") as o; r; a; b] ->
         let r = ix r and a = ix a and b = ix b in
         prep a; prep b;
         let ok =
           if o = "gcd" then true
           else begin
             ignore (doit (PCmp (nat a, nat b)));     (* lp_polynomial_top_variable cleans both *)
             match top_var !s.sord (den a), top_var !s.sord (den b) with
             | Some x, Some y -> x = y
             | _, _ -> false
           end in
         if not ok then Buffer.add_string buf " X"
         else begin
           let res = mpoly_of_string (c_obj_text k r) in
           ignore (doit (PBin ((fun _ _ _ -> res), nat r, nat a, nat b)));
           (* the route check of the driver hashes the result (r is in order: its cleaning does nothing) *)
           if r <> a && r <> b then ignore (doit (PHash (nat r)));
           Buffer.add_string buf " R1"
         end
       | [("cont" | "pp" | "reductum") as o; r; a] ->
         let r = ix r and a = ix a in
         prep a;
         let da = den a in
         if da = [] || (o = "reductum" && top_var !s.sord da = None) then Buffer.add_string buf " X"
         else begin
           let res = mpoly_of_string (c_obj_text k r) in
           ignore (doit (PUn ((fun _ _ -> res), nat r, nat a)))
         end
       | ["lcm"; r; a; b] ->
         let r = ix r and a = ix a and b = ix b in
         prep a; prep b;
         if den a = [] || den b = [] then Buffer.add_string buf " X"
         else begin
           let res = mpoly_of_string (c_obj_text k r) in
           ignore (doit (PBin ((fun _ _ _ -> res), nat r, nat a, nat b)))
         end
       | ["submul"; r; a; b] ->
         let r = ix r and a = ix a and b = ix b in
         prep a; prep b; prep r;
         ignore (doit (PCmp (nat r, nat r)));
         let dr = den r in
         ignore (doit (PBin ((fun _ x y -> mp_sub dr (mp_mul x y)), nat r, nat a, nat b)))
       | ["mulc"; r; a; c] ->
         let r = ix r and a = ix a in
         prep a;
         ignore (doit (PUn ((fun _ p -> mp_scale (z_of_string c) p), nat r, nat a)))
       | ["shl"; r; a; n] ->
         let r = ix r and a = ix a in
         prep a;
         (match top_var !s.sord (den a) with
          | None -> Buffer.add_string buf " X"
          | Some _ ->
            ignore (doit (PUn ((fun ord p -> match top_var ord p with
                                             | None -> p
                                             | Some x -> mp_mul p (mp_var_pow x (n_of_string n))), nat r, nat a))))
       | [("neg" | "der") as o; r; a] ->
         let r = ix r and a = ix a in
         prep a;
         let f = if o = "neg" then (fun _ p -> mp_neg p)
                 else (fun ord p -> match top_var ord p with None -> [] | Some x -> mp_deriv x p) in
         ignore (doit (PUn (f, nat r, nat a)))
       | ["pow"; r; a; e] ->
         let r = ix r and a = ix a in
         prep a;
         ignore (doit (PUn ((fun _ p -> mp_pow p (nat (int_of_string e))), nat r, nat a)))
       | ["mono"; i; t] ->
         let i = ix i in
         prep i;
         let (m, c) = term_of_text t in
         ignore (doit (PAddMono (nat i, m, c)))
       | ["eq"; i; j] ->
         let i = ix i and j = ix j in
         prep i; prep j;
         if mp_eqb (den i) (den j) then
           (match doit (PEq (nat i, nat j)) with OBool b -> Buffer.add_string buf (" E" ^ string_of_bool01 b) | _ -> failwith "obs")
         else begin
           (* different polynomials: the answer must be 0, but whether lp_polynomial_eq got as far as the comparison
              (which re-orders external operands) depends on a hash collision, which the property leaves open.
              Both caches are filled; the re-ordering is taken from the implementation's output: if it shows an
              external operand of this call re-ordered, BOTH operands have been cleaned (lp_polynomial_cmp). *)
           ignore (doit (PHash (nat i))); ignore (doit (PHash (nat j)));
           let pending k = let p = get !s (nat k) in p.pext && not (in_order !s.sord p.pdata) in
           if (pending i && c_obj_flag k i = '1') || (pending j && c_obj_flag k j = '1') then ignore (doit (PCmp (nat i, nat j)));
           Buffer.add_string buf " E0"
         end
       | ["cmp"; i; j] ->
         let i = ix i and j = ix j in
         prep i; prep j;
         (match doit (PCmp (nat i, nat j)) with OBool b -> Buffer.add_string buf (" C" ^ string_of_bool01 b) | _ -> failwith "obs")
       | ["heq"; i; j] ->
         let i = ix i and j = ix j in
         let h1 = doit (PHash (nat i)) in
         let h2 = doit (PHash (nat j)) in
         if mp_eqb (den i) (den j) then
           (* the model itself must agree with its theorem *)
           (if h1 = h2 then Buffer.add_string buf " H1" else failwith "model hashes of equal polynomials differ")
         else Buffer.add_string buf " H?"
       | _ -> failwith ("unknown command " ^ tok));
      dump ()) toks;
    Buffer.contents buf
  with
  | Not_enabled w -> "MODEL-ERROR precondition of a step does not hold in the model (" ^ w ^ ")")
