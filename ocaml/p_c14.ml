(* C14 model driver: one case per line -> the line the C side must print, or CHECK ok / CHECK fail.
   Trusted glue only: parsing and printing; every decision is taken by extracted model functions. *)
open Model
open Io

let zs = z_of_string
let sz = string_of_z
let b01 = string_of_bool01

(* set literal  L:e1,e2  /  I:e1,e2 *)
let parse_set (m : z) (tok : string) : fset =
  let inv = tok.[0] = 'I' in
  let body = String.sub tok 2 (String.length tok - 2) in
  let elems = if body = "" then [] else List.map zs (String.split_on_char ',' body) in
  (* the C driver uses new_empty / new_full for the empty list; the model's constructor agrees with them *)
  fs_from_integers m elems inv

let repr (s : fset) : string =
  (if s.fs_inv then "I:" else "L:") ^ String.concat "," (List.map sz s.fs_el)

let z64 = z_of_int 64
let z_le a b = Io.ZA.compare (zarith_of_z a) (zarith_of_z b) <= 0
let small m = z_le m z64

(* lb .. ub *)
let field_elems (m : z) : z list =
  let lb = int_of_z (ring_lb m) and ub = int_of_z (ring_ub m) in
  let rec go i acc = if i < lb then acc else go (i - 1) (z_of_int i :: acc) in
  go ub []

let mem_bits (s : fset) : string =
  if not (small s.fs_M) then "-"
  else String.concat "" (List.map (fun a -> b01 (fs_contains s a)) (field_elems s.fs_M))

let stname = function St_S1 -> "S1" | St_S2 -> "S2" | St_NEW -> "NEW" | St_EMPTY -> "EMPTY"

(* polynomial term:  N c | P v n t_0 .. t_{n-1} *)
let rec parse_term (toks : string list) : coef * string list =
  match toks with
  | "N" :: c :: rest -> (CNum (zs c), rest)
  | "P" :: v :: n :: rest ->
      let n = int_of_string n in
      let rec go k rest acc =
        if k = 0 then (List.rev acc, rest)
        else let (t, rest') = parse_term rest in go (k - 1) rest' (t :: acc) in
      let (cs, rest') = go n rest [] in
      (CPoly (nat_of_int (int_of_string v), cs), rest')
  | _ -> failwith "bad term"

let rec take n l = if n = 0 then ([], l) else match l with [] -> failwith "short" | x :: t -> let (a, b) = take (n - 1) t in (x :: a, b)

(* certificate tokens:  lc k r1..rk q b1 c1 .. bq cq ; "0" alone = none *)
let parse_cert (toks : string list) : (z * z list * (z * z) list) option * string list =
  match toks with
  | "0" :: rest -> (None, rest)
  | lc :: k :: rest ->
      let (rs, rest) = take (int_of_string k) rest in
      (match rest with
       | q :: rest ->
           let (qs, rest) = take (2 * int_of_string q) rest in
           let rec pairs = function a :: b :: t -> (zs a, zs b) :: pairs t | _ -> [] in
           (Some (zs lc, List.map zs rs, pairs qs), rest)
       | [] -> failwith "bad cert")
  | _ -> failwith "bad cert"

let roots_line (rs : z list) = String.concat " " (string_of_int (List.length rs) :: List.map sz rs)


let fuel = nat_of_int 100000

let run (toks : string list) (cout : string list) : string =
  match toks with
  | ["obs"; m; a] ->
      let m = zs m in
      let s = parse_set m a in
      Printf.sprintf "%s size=%s approx=%s empty=%s full=%s copy=%s copyeq=%s assign=%s swapped=L: mem=%s"
        (repr s) (sz (fs_size s)) (sz (fs_size_approx s)) (b01 (fs_is_empty s)) (b01 (fs_is_full s))
        (repr s) (b01 (fs_eq s s)) (repr s) (mem_bits s)
  | ["fromint0"; m; inv] ->
      let s = fs_from_integers (zs m) [] (inv = "1") in
      Printf.sprintf "%s empty=%s full=%s" (repr s) (b01 (fs_is_empty s)) (b01 (fs_is_full s))
  | ["point"; m; a] -> "point=" ^ b01 (fs_is_point (parse_set (zs m) a))
  | ["bin"; m; a; b] ->
      let m = zs m in
      let s1 = parse_set m a and s2 = parse_set m b in
      let (u, su) = fs_union_with_status s1 s2 in
      let (i, si) = fs_intersect_with_status s1 s2 in
      let u2 = fs_union s1 s2 and i2 = fs_intersect s1 s2 in
      if repr u2 <> repr u || repr i2 <> repr i then "MODEL-ERROR status and no-status variants differ"
      else
      Printf.sprintf "U %s %s I %s %s eq=%s memU=%s memI=%s" (repr u) (stname su) (repr i) (stname si)
        (b01 (fs_eq s1 s2)) (mem_bits u) (mem_bits i)
  | "contains" :: m :: a :: vs ->
      let s = parse_set (zs m) a in
      String.concat "" (List.map (fun v -> b01 (fs_contains s (zs v))) vs)
  | ["pick"; m; a] ->
      let s = parse_set (zs m) a in
      if fs_is_empty s then "EMPTY"
      else (match cout with
        | [v1; v2] ->
            let v1 = zs v1 and v2 = zs v2 in
            if not (fs_pick_ok s v1 && fs_pick_ok s v2) then
              "CHECK fail: picked value is not an element of the set (or not a canonical representative)"
            else if s.fs_inv then
              (match fs_pick_inverted fuel s with
               | Some w -> "CHECK ok scan=" ^ b01 (sz w = sz v1 && sz w = sz v2)
               | None -> "CHECK ok scan=fuel")
            else "CHECK ok scan=-"
        | _ -> "CHECK fail: expected two picked values")
  | "roots" :: m :: cs | "rootsR" :: m :: cs ->
      let m = zs m in
      if List.hd toks = "rootsR" && cout = ["NOHOOK"] then
        "CHECK fail: forced-Rabin case generated (VERIF_HOOK_RABIN=1) but the library has no lp_verif_force_rabin hook"
      else
      let f = upoly_construct (Some m) (List.map zs cs) in
      (match upoly_degree f with
       | N0 -> "CONST"
       | _ ->
         if List.hd toks = "roots" then
           (match roots_find_Zp m f with
            | Some rs -> roots_line rs
            | None -> roots_line (roots_reference m f))     (* only reachable for small generated M >= 1000 *)
         else roots_line (roots_reference m f))
  | "rootsc" :: m :: n :: rest ->
      let m = zs m in
      let (cs, rest) = take (int_of_string n + 1) rest in
      let cs = List.map zs cs in
      (match parse_cert rest with
       | (Some (lc, rs, qs), _) ->
           if not (cert_ok m cs lc rs qs) then "MODEL-ERROR certificate of the generator does not check"
           else
             let expected = cert_roots m rs in
             (* the proved soundness checker on what the implementation returned (redundant when the lines agree) *)
             let sound = (match cout with
               | _ :: rs' -> (try roots_sound_check m (upoly_construct (Some m) cs) (List.map zs rs') with _ -> false)
               | [] -> false) in
             if sound then roots_line expected else roots_line expected ^ " UNSOUND"
       | (None, _) -> "MODEL-ERROR no certificate")
  | "cons" :: m :: cond :: neg :: yv :: zv :: "P" :: np :: rest ->
      let m = zs m in
      let k = Some m in
      let cond = if cond = "EQ" then ZpEQ else ZpNE in
      let neg = neg = "1" in
      let yv = zs yv and zv = zs zv in
      let (probes, rest) = take (int_of_string np) rest in
      let probes = List.map zs probes in
      let rest = (match rest with "C" :: r -> r | _ -> failwith "expected C") in
      let (cert, rest) = parse_cert rest in
      let rest = (match rest with "T" :: r -> r | _ -> failwith "expected T") in
      let (a, _) = parse_term rest in
      let asg = fun (v : nat) -> (match int_of_nat v with 1 -> yv | 2 -> zv | _ -> Z0) in
      let top = O in
      let cond' = if neg then zp_negate cond else cond in
      let set =
        (match constraint_feasible_set_Zp m top asg a cond neg with
         | Some s -> Some s
         | None ->
           (* randomised branch: the certified root set *)
           (match cert with
            | Some (lc, rs, qs) ->
                if cert_ok m (univariate_coeffs k top asg a) lc rs qs
                then Some { fs_M = m; fs_inv = (cond' = ZpNE); fs_el = cert_roots m rs }
                else None
            | None -> None)) in
      (match set with
       | None -> "MODEL-ERROR no (valid) certificate for a field above the brute-force limit"
       | Some s ->
         let ev_bits =
           if small m then
             String.concat "" (List.map (fun v -> b01 (constraint_evaluate_Zp m (assign_set asg top v) a cond')) (field_elems m))
           else "-" in
         let pr =
           if probes = [] then "-"
           else String.concat "" (List.map (fun v ->
                  b01 (constraint_evaluate_Zp m (assign_set asg top v) a cond') ^ b01 (fs_contains s v)) probes) in
         Printf.sprintf "%s mem=%s ev=%s probes=%s" (repr s) (mem_bits s) ev_bits pr)
  | "red" :: m :: cs ->
      (match reduce_degree_Zp_uni fuel (zs m) (List.map zs cs) with
       | Some r -> String.concat "," (List.map sz r)
       | None -> "FUEL")
  | "redm" :: m :: rest ->
      (* values of A on all of K^3 (x fastest) by the proved evaluator; the comparator requires the
         implementation's values of A AND of its reduced polynomial to equal these, and the degrees to be < p *)
      let m = zs m in
      let (a, _) = parse_term rest in
      let fe = field_elems m in
      let vals = List.concat_map (fun zv -> List.concat_map (fun yv -> List.map (fun xv ->
                   let asg = fun (v : nat) -> (match int_of_nat v with 0 -> xv | 1 -> yv | 2 -> zv | _ -> Z0) in
                   sz (coef_eval (Some m) asg a)) fe) fe) fe in
      "A=" ^ String.concat "," vals
  | _ -> "UNKNOWN-OP"
