(* C15 model driver: one case per line -> the line the C driver must print.
   Witness points (after `W`) are validated against the operands with the model's proved `contains`
   and against the model's own result; the expected monitor output is `lost=0`. *)
open Model
open Io

exception Bad of string

(* ---- scalars *)
let rat_of s : rat =
  match String.split_on_char '/' s with
  | [a; b] -> (z_of_string a, z_of_string b)
  | [a] -> (z_of_string a, z_of_int 1)
  | _ -> raise (Bad "rational")
let dy_of s : dyadic =
  match String.split_on_char '@' s with
  | [a; n] -> { da = z_of_string a; dn = n_of_string n }
  | [a] -> { da = z_of_string a; dn = N0 }
  | _ -> raise (Bad "dyadic")
let val_of s : value =
  if s = "-inf" then VMinf else if s = "+inf" then VPinf else if s = "none" then VNone
  else if String.length s > 2 && s.[1] = ':' then
    let r = String.sub s 2 (String.length s - 2) in
    (match s.[0] with
     | 'i' -> VInt (z_of_string r) | 'd' -> VDy (dy_of r) | 'q' -> VRat (rat_of r)
     | _ -> raise (Bad "value"))
  else raise (Bad "value")
let str_rat (q : rat) = string_of_z (fst q) ^ "/" ^ string_of_z (snd q)
let str_dy d = string_of_z d.da ^ "@" ^ string_of_n d.dn
let str_val v = match v with
  | VNone -> "none" | VMinf -> "-inf" | VPinf -> "+inf"
  | VInt z -> "i:" ^ string_of_z z | VDy d -> "d:" ^ str_dy d | VRat q -> "q:" ^ str_rat q

(* ---- intervals *)
let p_itv (sc : string -> 'a) (dead : 'a) (toks : string list) : 'a itv * string list =
  match toks with
  | "P" :: x :: r -> ({ ia = sc x; ib = dead; ia_open = false; ib_open = false; ipt = true }, r)
  | "I" :: ao :: a :: bo :: b :: r ->
      ({ ia = sc a; ib = sc b; ia_open = (ao = "1"); ib_open = (bo = "1"); ipt = false }, r)
  | _ -> raise (Bad "interval")
let str_itv (ss : 'a -> string) (i : 'a itv) =
  if i.ipt then "P " ^ ss i.ia ^ (if i.ia_open || i.ib_open then Printf.sprintf " FLAGS%d%d" (if i.ia_open then 1 else 0) (if i.ib_open then 1 else 0) else "")
  else Printf.sprintf "I %d %s %d %s" (if i.ia_open then 1 else 0) (ss i.ia) (if i.ib_open then 1 else 0) (ss i.ib)
let skip tok toks = match toks with t :: r when t = tok -> r | _ -> raise (Bad ("expected " ^ tok))

let q0 : rat = (z_of_int 0, z_of_int 1)
let d0 : dyadic = { da = Z0; dn = N0 }

(* generic binary op on a scalar family *)
let run_bin sc ss dead (op : alias -> 'a itv -> 'a itv -> 'a itv -> 'a itv) (contains : 'a itv -> 'a -> bool)
            (wop : 'a -> 'a -> 'a) toks =
  let (i1, r) = p_itv sc dead toks in
  let (i2, r) = p_itv sc dead r in
  let (u, r) = p_itv sc dead (skip "U" r) in
  let w = skip "W" r in
  let fresh = { ia = dead; ib = dead; ia_open = false; ib_open = false; ipt = true } in
  let r1 = op NoAlias fresh i1 i2 in
  let r2 = op NoAlias u i1 i2 in
  let r3 = op AliasA i1 i1 i2 in
  let r4 = op AliasB i2 i1 i2 in
  let rec chk = function
    | x :: y :: rest ->
        let x = sc x and y = sc y in
        if not (contains i1 x && contains i2 y) then raise (Bad "witness outside its operand");
        if not (contains r1 (wop x y)) then raise (Bad "model result loses a witness");
        chk rest
    | _ -> () in
  chk w;
  String.concat " ; " (List.map (str_itv ss) [r1; r2; r3; r4]) ^ " ; lost=0"

let run_un sc ss dead (op : alias -> 'a itv -> 'a itv -> 'a itv) (contains : 'a itv -> 'a -> bool) (wop : 'a -> 'a) toks =
  let (i, r) = p_itv sc dead toks in
  let (u, r) = p_itv sc dead (skip "U" r) in
  let w = skip "W" r in
  let fresh = { ia = dead; ib = dead; ia_open = false; ib_open = false; ipt = true } in
  let r1 = op NoAlias fresh i in
  let r2 = op NoAlias u i in
  let r3 = op AliasA i i in
  List.iter (fun x ->
    let x = sc x in
    if not (contains i x) then raise (Bad "witness outside its operand");
    if not (contains r1 (wop x)) then raise (Bad "model result loses a witness")) w;
  String.concat " ; " (List.map (str_itv ss) [r1; r2; r3]) ^ " ; lost=0"

(* value level: witnesses are rationals *)
let vq (q : rat) : value = VRat q
let run_vbin (op : vitv -> vitv -> vitv) (wop : rat -> rat -> rat) toks =
  let (i1, r) = p_itv val_of VNone toks in
  let (i2, r) = p_itv val_of VNone r in
  let (_, r) = p_itv val_of VNone (skip "U" r) in
  let w = skip "W" r in
  let res = op i1 i2 in
  let rec chk = function
    | x :: y :: rest ->
        let x = rat_of x and y = rat_of y in
        if not (vi_contains i1 (vq x) && vi_contains i2 (vq y)) then raise (Bad "witness outside its operand");
        if not (vi_contains res (vq (wop x y))) then raise (Bad "model result loses a witness");
        chk rest
    | _ -> () in
  chk w;
  let s = str_itv str_val res in
  String.concat " ; " [s; s; s; s] ^ " ; lost=0"

let sc_of s = match s with
  | "0" -> SGN_LT_0 | "1" -> SGN_LE_0 | "2" -> SGN_EQ_0 | "3" -> SGN_NE_0 | "4" -> SGN_GT_0 | "5" -> SGN_GE_0
  | _ -> raise (Bad "sign condition")

(* polynomials: N z | R x k c0 .. c(k-1) *)
let rec p_coef toks : coef * string list =
  match toks with
  | "N" :: z :: r -> (CNum (z_of_string z), r)
  | "R" :: x :: k :: r ->
      let k = int_of_string k in
      let rec go i r acc = if i = k then (List.rev acc, r) else let (c, r) = p_coef r in go (i + 1) r (c :: acc) in
      let (cs, r) = go 0 r [] in
      (CRec (nat_of_int (int_of_string x), cs), r)
  | _ -> raise (Bad "coefficient")
let rec eval_coef (pt : rat array) (c : coef) : rat =
  match c with
  | CNum z -> (z, z_of_int 1)
  | CRec (x, cs) ->
      let xv = pt.(int_of_nat x) in
      let (acc, _) = List.fold_left (fun (acc, i) ci ->
        (q_add acc (q_mul (eval_coef pt ci) (rat_ops.s_pow xv (n_of_int i))), i + 1)) (q0, 0) cs in
      acc

let rec take n l = if n = 0 then ([], l) else match l with x :: r -> let (a, b) = take (n - 1) r in (x :: a, b) | [] -> raise (Bad "short")


(* ---------------------------------------------------------------- end points of every value kind (valio tokens):
   the property is decided on the implementation's OUTPUT with the exact reference arithmetic (IntervalArithRef.v) *)
exception Fuel
exception Fail of string
let fuel = big_fuel
let ob = function Some b -> b | None -> raise Fuel
let xval_of tok = try snd (value_of_token tok) with Bad_value m -> raise (Fail ("unreadable value " ^ tok ^ ": " ^ m))
let rnum_of tok = match (try snd (value_of_token tok) with Bad_value m -> raise (Bad ("witness " ^ tok ^ ": " ^ m))) with
  | XFin x -> x | _ -> raise (Bad "finite witness expected")
let p_xitv (who : string) (toks : string list) : xval itv * string list =
  let conv t = if who = "case" then (try snd (value_of_token t) with Bad_value m -> raise (Bad ("operand " ^ t ^ ": " ^ m))) else xval_of t in
  match toks with
  | "P" :: x :: r when (match r with f :: _ when String.length f > 5 && String.sub f 0 5 = "FLAGS" -> false | _ -> true) ->
      ({ ia = conv x; ib = XMinf; ia_open = false; ib_open = false; ipt = true }, r)
  | "P" :: _ -> raise (Fail "a point interval with an open flag set")
  | "I" :: ao :: a :: bo :: b :: r ->
      ({ ia = conv a; ib = conv b; ia_open = (ao = "1"); ib_open = (bo = "1"); ipt = false }, r)
  | _ -> raise (Fail "unreadable interval in the output")
let rec split_semis (toks : string list) : string list list =
  let rec go cur acc = function
    | [] -> List.rev (List.rev cur :: acc)
    | ";" :: r -> go [] (List.rev cur :: acc) r
    | t :: r -> go (t :: cur) acc r in
  go [] [] toks
let str_xitv (i : xval itv) =
  if i.ipt then "[" ^ string_of_xval i.ia ^ "]"
  else (if i.ia_open then "(" else "[") ^ string_of_xval i.ia ^ ", " ^ string_of_xval i.ib ^ (if i.ib_open then ")" else "]")
let variant_name k = List.nth ["fresh output"; "pre-used output"; "output aliased with operand 1"; "output aliased with operand 2"] k

(* checks common to aadd / amul / apow on the list of result intervals *)
let check_results (rs : xval itv list) (zs : xval list) (corners : (xval * bool) list) (exact : xval option) (lost : string) =
  if lost <> "lost=0" then raise (Fail ("SEMANTIC: the library's own lp_interval_contains rejects witness values x o y on its result (" ^ lost ^ ")"));
  let r1 = List.hd rs in
  List.iteri (fun k r ->
    if not (ob (xi_wf fuel r)) then raise (Fail (variant_name k ^ ": result " ^ str_xitv r ^ " is not a well-formed interval (a < b, or a closed point)"));
    List.iter (fun z -> if not (ob (xi_contains fuel r z)) then
      raise (Fail (variant_name k ^ ": result " ^ str_xitv r ^ " does not contain the exact witness value " ^ string_of_xval z))) zs;
    List.iter (fun (c, att) -> if not (ob (xi_encloses fuel r c att)) then
      raise (Fail (variant_name k ^ ": result " ^ str_xitv r ^ " does not enclose the exact end-point image " ^ string_of_xval c ^
                   (if att then " (attained)" else " (limit)")))) corners;
    (match exact with
     | Some v -> if not (ob (is_point_of_value fuel r v)) then
         raise (Fail (variant_name k ^ ": operands are points with rational values but the result " ^ str_xitv r ^ " is not the point " ^ string_of_xval v))
     | None -> ());
    if k > 0 && not (ob (xi_same fuel r1 r)) then
      raise (Fail (variant_name k ^ " gives " ^ str_xitv r ^ " but the fresh output gives " ^ str_xitv r1))) rs

let operand_ok i = if not (ob (xi_wf fuel i)) then raise (Bad "operand is not a well-formed interval")

let run_abin (mul : bool) toks cout =
  let (i1, r) = p_xitv "case" toks in
  let (i2, r) = p_xitv "case" r in
  let (_, r) = p_xitv "case" (skip "U" r) in
  let w = skip "W" r in
  operand_ok i1; operand_ok i2;
  let rec wit acc = function
    | x :: y :: z :: rest ->
        let xr = rnum_of x and yr = rnum_of y and zr = rnum_of z in
        if not (ob (xi_contains fuel i1 (XFin xr)) && ob (xi_contains fuel i2 (XFin yr))) then raise (Bad ("witness outside its operand: " ^ x ^ " " ^ y));
        if not (ob ((if mul then is_prod else is_sum) fuel xr yr zr)) then raise (Bad ("witness " ^ z ^ " is not x o y for " ^ x ^ " " ^ y));
        wit (XFin zr :: acc) rest
    | _ -> List.rev acc in
  let zs = wit [] w in
  let groups = split_semis cout in
  (match List.rev groups with
   | lost :: rest ->
       let rs = List.map (fun g -> fst (p_xitv "out" g)) (List.rev rest) in
       if List.length rs <> 4 then raise (Fail "four result intervals expected");
       if List.length lost <> 1 then raise (Fail ("driver reported " ^ String.concat " " lost));
       let corners = ob (corners_bin fuel mul i1 i2) in
       let exact =
         if ob (rational_point fuel i1) && ob (rational_point fuel i2)
         then (if mul then xv_mul fuel i1.ia i2.ia else xv_add fuel i1.ia i2.ia) else None in
       check_results rs zs corners exact (List.hd lost)
   | [] -> raise (Fail "empty output"));
  "CHECK ok"

let run_apow toks cout =
  match toks with
  | n :: r ->
      let n = n_of_string n in
      let (i, r) = p_xitv "case" r in
      let (_, r) = p_xitv "case" (skip "U" r) in
      let w = skip "W" r in
      operand_ok i;
      let rec wit acc = function
        | x :: z :: rest ->
            let xr = rnum_of x and zr = rnum_of z in
            if not (ob (xi_contains fuel i (XFin xr))) then raise (Bad ("witness outside its operand: " ^ x));
            if not (ob (is_pow fuel xr n zr)) then raise (Bad ("witness " ^ z ^ " is not x^n for " ^ x));
            wit (XFin zr :: acc) rest
        | _ -> List.rev acc in
      let zs = wit [] w in
      let groups = split_semis cout in
      (match List.rev groups with
       | lost :: rest ->
           let rs = List.map (fun g -> fst (p_xitv "out" g)) (List.rev rest) in
           if List.length rs <> 3 then raise (Fail "three result intervals expected");
           if List.length lost <> 1 then raise (Fail ("driver reported " ^ String.concat " " lost));
           let corners = ob (corners_pow fuel i n) in
           let exact = if ob (rational_point fuel i) then xv_pow fuel i.ia n else None in
           check_results rs zs corners exact (List.hd lost)
       | [] -> raise (Fail "empty output"));
      "CHECK ok"
  | _ -> raise (Bad "apow")

(* nested coefficient description -> flat terms for mp_of_terms *)
let rec coef_terms (c : coef) : ((n * n) list * z) list =
  match c with
  | CNum z -> if sgn_of_z z = 0 then [] else [([], z)]
  | CRec (x, cs) ->
      let xv = n_of_int (int_of_nat x) in
      List.concat (List.mapi (fun i ci ->
        List.map (fun (m, z) -> ((if i = 0 then m else m @ [(xv, n_of_int i)]), z)) (coef_terms ci)) cs)

let run_apoly toks cout =
  match toks with
  | nv :: r ->
      let nv = int_of_string nv in
      let (c, r) = p_coef r in
      let r = skip "A" r in
      let rec ivs k r acc = if k = 0 then (List.rev acc, r) else let (i, r) = p_xitv "case" r in ivs (k - 1) r (i :: acc) in
      let (is, r) = ivs nv r [] in
      List.iter operand_ok is;
      let arr = Array.of_list is in
      let p = mp_of_terms (List.map (fun (m, z) -> (List.sort (fun (a, _) (b, _) -> compare (int_of_n a) (int_of_n b)) m, z)) (coef_terms c)) in
      let rec pts acc r =
        if List.length r >= nv + 1 then begin
          let (pt, r') = take nv r in
          (match r' with
           | z :: r'' ->
               let xs = Array.of_list (List.map rnum_of pt) in
               Array.iteri (fun k x -> if not (ob (xi_contains fuel arr.(k) (XFin x))) then raise (Bad "witness outside its operand")) xs;
               let rho (v : n) = let k = int_of_n v in if k < Array.length xs then xs.(k) else RQ (z_of_int 0, z_of_int 1) in
               let zr = rnum_of z in
               (match mp_eval_rn fuel rho p with
                | Some v -> if sgn_of_z (ob (rn_cmp fuel zr v)) <> 0 then raise (Bad ("witness " ^ z ^ " is not p(x)"))
                | None -> raise Fuel);
               pts (XFin zr :: acc) r''
           | [] -> List.rev acc)
        end else List.rev acc in
      let zs = pts [] (skip "W" r) in
      (match split_semis cout with
       | [g; [lost]] ->
           let res = fst (p_xitv "out" g) in
           if lost <> "lost=0" then raise (Fail ("SEMANTIC: the library's own lp_interval_contains rejects values p(x) of box points on its result (" ^ lost ^ ")"));
           if not (ob (xi_wf fuel res)) then raise (Fail ("result " ^ str_xitv res ^ " is not a well-formed interval"));
           List.iter (fun z -> if not (ob (xi_contains fuel res z)) then
             raise (Fail ("result " ^ str_xitv res ^ " does not contain the exact value " ^ string_of_xval z ^ " of the polynomial at a point of the box"))) zs
       | _ -> raise (Fail ("unreadable output " ^ String.concat " " cout)));
      "CHECK ok"
  | _ -> raise (Bad "apoly")

let run_a f = try f () with Fuel -> "FUEL" | Fail m -> "CHECK fail " ^ m


(* ---------------------------------------------------------------- the rest of the interval API: exact predictions *)
let b01 b = if b then "1" else "0"
let sg z = string_of_int (sgn_of_z z)
let sdi = str_itv str_dy
let sri = str_itv str_rat
let svi = str_itv str_val
let p_di toks = p_itv dy_of d0 toks
let p_ri toks = p_itv rat_of q0 toks
let p_vi toks = p_itv val_of VNone toks
let opt_itv ss = function Some i -> str_itv ss i | None -> "SKIP"

let run_more (toks : string list) : string option =
  match toks with
  | "dsplit" :: r ->
      let (i, r) = p_di r in
      (match r with
       | [lo; ro] -> Some (match di_from_split i (lo = "1") (ro = "1") with Some (l, rr) -> sdi l ^ " ; " ^ sdi rr | None -> "SKIP")
       | _ -> raise (Bad "dsplit"))
  | "dinter" :: r ->
      let (i1, r) = p_di r in let (i2, _) = p_di r in
      Some (match di_intersection i1 i2, di_intersection i2 i1 with
            | Some a, Some b -> sdi a ^ " ; " ^ sdi b | _, _ -> "SKIP")
  | "ddisj" :: r ->
      let (i1, r) = p_di r in let (i2, _) = p_di r in
      Some (b01 (di_disjoint i1 i2) ^ " " ^ b01 (di_disjoint i2 i1))
  | "dequals" :: r ->
      let (i1, r) = p_di r in let (i2, _) = p_di r in
      Some (b01 (di_equals i1 i2) ^ " " ^ b01 (di_equals i2 i1))
  | "dcmp" :: r ->
      let (i, r) = p_di r in
      (match r with
       | [v] -> Some (match val_of v with
                      | VInt z -> sg (di_cmp_integer i z)
                      | VDy d -> sg (di_cmp_dyadic i d) ^ " " ^ b01 (di_contains i d)
                      | VRat q -> sg (di_cmp_rational i q)
                      | _ -> raise (Bad "dcmp value"))
       | _ -> raise (Bad "dcmp"))
  | "dcollapse" :: r -> let (i, r) = p_di r in (match r with [q] -> Some (sdi (di_collapse_to i (dy_of q))) | _ -> raise (Bad "dcollapse"))
  | "dseta" :: r -> let (i, r) = p_di r in (match r with [q; o] -> Some (opt_itv str_dy (di_set_a i (dy_of q) (o = "1"))) | _ -> raise (Bad "dseta"))
  | "dsetb" :: r -> let (i, r) = p_di r in (match r with [q; o] -> Some (opt_itv str_dy (di_set_b i (dy_of q) (o = "1"))) | _ -> raise (Bad "dsetb"))
  | "dscale" :: r -> let (i, r) = p_di r in (match r with [n] -> Some (opt_itv str_dy (di_scale i (z_of_string n))) | _ -> raise (Bad "dscale"))
  | "dsize" :: r ->
      let (i, _) = p_di r in
      Some ((match di_size i with Some z -> string_of_z z | None -> "INT_MIN") ^ " " ^ b01 i.ipt ^ (if i.ipt then " " ^ str_dy i.ia else ""))
  | ["dfromz"; a; ao; b; bo] -> Some (opt_itv str_dy (di_from_integer (z_of_string a) (ao = "1") (z_of_string b) (bo = "1")))
  | ["rfromz"; a; ao; b; bo] -> Some (opt_itv str_rat (ri_from_integer (z_of_string a) (ao = "1") (z_of_string b) (bo = "1")))
  | "dassign" :: r ->
      let (i, r) = p_di r in let (f, _) = p_di r in
      let x = di_assign i f in
      Some (String.concat " ; " [sdi x; sdi (di_assign f i); sdi x; sdi f; sdi i])
  | "rassign" :: r ->
      let (i, r) = p_ri r in let (f, _) = p_ri r in
      let x = ri_assign i f in
      Some (String.concat " ; " [sri x; sri (ri_assign f i); sri x; sri f; sri i] ^ " ; " ^ b01 f.ipt ^ (if f.ipt then " " ^ str_rat f.ia else ""))
  | ["rfromdy"; a; ao; b; bo] -> Some (opt_itv str_rat (ri_from_dyadic (dy_of a) (ao = "1") (dy_of b) (bo = "1")))
  | "rfromdi" :: r -> let (d, _) = p_di r in Some (sri (ri_from_dyadic_interval d))
  | "rcval" :: r ->
      let (i, r) = p_ri r in
      (match r with
       | [v] ->
           let v = val_of v in
           Some (b01 (ri_contains_value i v) ^
                 (match v with
                  | VRat q -> " " ^ b01 (ri_contains i q)
                  | _ -> ""))
       | _ -> raise (Bad "rcval"))
  | "rcalg" :: r ->
      let (i, r) = p_ri r in
      (match r with
       | [tok] ->
           let (kind, xv) = (try value_of_token tok with Bad_value m -> raise (Bad m)) in
           let cmpq (q : rat) = (match xv with XMinf -> -1 | XPinf -> 1 | XFin x -> sgn_of_z (rn_cmp_q x q)) in  (* sign of v - q *)
           let inside =
             if i.ipt then cmpq i.ia = 0
             else (let ca = cmpq i.ia in if i.ia_open then ca > 0 else ca >= 0) && (let cb = cmpq i.ib in if i.ib_open then cb < 0 else cb <= 0) in
           ignore kind; Some (b01 inside)
       | _ -> raise (Bad "rcalg"))
  | "vcollapse" :: r -> let (i, r) = p_vi r in (match r with [v] -> Some (svi (vi_collapse_to i (val_of v))) | _ -> raise (Bad "vcollapse"))
  | "vseta" :: r -> let (i, r) = p_vi r in (match r with [v; o] -> Some (opt_itv str_val (vi_set_a i (val_of v) (o = "1"))) | _ -> raise (Bad "vseta"))
  | "vsetb" :: r -> let (i, r) = p_vi r in (match r with [v; o] -> Some (opt_itv str_val (vi_set_b i (val_of v) (o = "1"))) | _ -> raise (Bad "vsetb"))
  | "vinfo" :: r ->
      let (i, _) = p_vi r in
      let full = { ia = VMinf; ib = VPinf; ia_open = true; ib_open = true; ipt = false } in
      Some (b01 ((not i.ipt) && vi_is_full i) ^ " " ^ b01 i.ipt ^ (if i.ipt then " " ^ str_val i.ia else "") ^ " " ^
            (match vi_size_approx i with None -> "INT_MIN" | Some None -> "INT_MAX" | Some (Some z) -> string_of_z z) ^
            " " ^ b01 (vi_is_full full) ^ " " ^ svi full)
  | "vswap" :: r -> let (i1, r) = p_vi r in let (i2, _) = p_vi r in Some (svi i2 ^ " ; " ^ svi i1)
  | _ -> None

let run (toks : string list) (_cout : string list) : string =
  try
    match toks with
    | "radd" :: r -> run_bin rat_of str_rat q0 ri_add ri_contains rat_ops.s_add r
    | "rsub" :: r -> run_bin rat_of str_rat q0 ri_sub ri_contains (fun x y -> rat_ops.s_add x (rat_ops.s_neg y)) r
    | "rmul" :: r -> run_bin rat_of str_rat q0 ri_mul ri_contains rat_ops.s_mul r
    | "rneg" :: r -> run_un rat_of str_rat q0 ri_neg ri_contains rat_ops.s_neg r
    | "rpow" :: n :: r ->
        let n = n_of_string n in
        run_un rat_of str_rat q0 (fun al p x -> ri_pow al p x n) ri_contains (fun x -> rat_ops.s_pow x n) r
    | "rsgn" :: r -> let (i, _) = p_itv rat_of q0 r in string_of_int (sgn_of_z (ri_sgn i)) ^ " " ^ string_of_bool01 (ri_contains_zero i)
    | ["rcons"; a; ao; b; bo] ->
        (match ri_construct (z_of_string a, z_of_int 1) (ao = "1") (z_of_string b, z_of_int 1) (bo = "1") with
         | Some i -> str_itv str_rat i | None -> "SKIP")
    | "dadd" :: r -> run_bin dy_of str_dy d0 di_add di_contains dy_ops.s_add r
    | "dsub" :: r -> run_bin dy_of str_dy d0 di_sub di_contains (fun x y -> dy_ops.s_add x (dy_ops.s_neg y)) r
    | "dmul" :: r -> run_bin dy_of str_dy d0 di_mul di_contains dy_ops.s_mul r
    | "dneg" :: r -> run_un dy_of str_dy d0 di_neg di_contains dy_ops.s_neg r
    | "dpow" :: n :: r ->
        let n = n_of_string n in
        run_un dy_of str_dy d0 (fun al p x -> di_pow al p x n) di_contains (fun x -> dy_ops.s_pow x n) r
    | "dsgn" :: r -> let (i, _) = p_itv dy_of d0 r in string_of_int (sgn_of_z (di_sgn i)) ^ " " ^ string_of_bool01 (di_contains_zero i)
    | ["dcons"; a; ao; b; bo] ->
        (match di_construct { da = z_of_string a; dn = N0 } (ao = "1") { da = z_of_string b; dn = N0 } (bo = "1") with
         | Some i -> str_itv str_dy i | None -> "SKIP")
    | "vadd" :: r -> run_vbin vi_add rat_ops.s_add r
    | "vmul" :: r -> run_vbin vi_mul rat_ops.s_mul r
    | "vpow" :: n :: r ->
        let n = n_of_string n in
        let (i, r) = p_itv val_of VNone r in
        let (_, r) = p_itv val_of VNone (skip "U" r) in
        let w = skip "W" r in
        let res = vi_pow i n in
        List.iter (fun x ->
          let x = rat_of x in
          if not (vi_contains i (vq x)) then raise (Bad "witness outside its operand");
          if not (vi_contains res (vq (rat_ops.s_pow x n))) then raise (Bad "model result loses a witness")) w;
        let s = str_itv str_val res in
        String.concat " ; " [s; s; s] ^ " ; lost=0"
    | "vsgn" :: r -> let (i, _) = p_itv val_of VNone r in string_of_int (sgn_of_z (vi_sgn i))
    | "sc" :: c :: r ->
        let c = sc_of c in
        let (i, r) = p_itv val_of VNone r in
        let w = skip "W" r in
        let ans = sc_consistent_interval c i in
        List.iter (fun x ->
          let x = rat_of x in
          if not (vi_contains i (vq x)) then raise (Bad "witness outside its operand");
          if ans && not (sc_consistent c (rat_ops.s_sgn x)) then raise (Bad "model answer contradicted by a witness")) w;
        string_of_bool01 ans ^ " bad=0"
    | "poly" :: nv :: r ->
        let nv = int_of_string nv in
        let (c, r) = p_coef r in
        let r = skip "A" r in
        let rec ivs k r acc = if k = 0 then (List.rev acc, r) else let (i, r) = p_itv val_of VNone r in ivs (k - 1) r (i :: acc) in
        let (is, r) = ivs nv r [] in
        let arr = Array.of_list is in
        let full = { ia = VMinf; ib = VPinf; ia_open = true; ib_open = true; ipt = false } in
        let m (x : nat) = let k = int_of_nat x in if k < Array.length arr then arr.(k) else full in
        let res = coef_interval_value m c in
        let rec pts r =
          if List.length r >= nv && nv > 0 then begin
            let (p, r') = take nv r in
            let pt = Array.of_list (List.map rat_of p) in
            Array.iteri (fun k x -> if not (vi_contains arr.(k) (vq x)) then raise (Bad "witness outside its operand")) pt;
            if not (vi_contains res (vq (eval_coef pt c))) then raise (Bad "model result loses a witness");
            pts r'
          end in
        pts (skip "W" r);
        str_itv str_val res ^ " ; lost=0"
    | "aadd" :: r -> run_a (fun () -> run_abin false r _cout)
    | "amul" :: r -> run_a (fun () -> run_abin true r _cout)
    | "apow" :: r -> run_a (fun () -> run_apow r _cout)
    | "apoly" :: r -> run_a (fun () -> run_apoly r _cout)
    | _ -> (match run_more toks with Some s -> s | None -> "UNKNOWN-OP")
  with Bad s -> "MODEL-ERROR " ^ s
