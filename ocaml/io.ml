(* Trusted glue: decimal text <-> extracted Z/N/nat (via zarith for the decimal conversion only). *)
module ZA = Z
open Model

let rec pos_of_zarith (x : ZA.t) : positive =
  if ZA.equal x ZA.one then XH
  else if ZA.is_even x then XO (pos_of_zarith (ZA.shift_right x 1))
  else XI (pos_of_zarith (ZA.shift_right x 1))

let z_of_zarith (x : ZA.t) : z =
  let s = ZA.sign x in
  if s = 0 then Z0 else if s > 0 then Zpos (pos_of_zarith x) else Zneg (pos_of_zarith (ZA.neg x))

let zarith_of_pos (p : positive) : ZA.t =
  (* iterative to avoid deep recursion on big numbers *)
  let rec go p acc shift =
    match p with
    | XH -> ZA.add acc (ZA.shift_left ZA.one shift)
    | XO q -> go q acc (shift + 1)
    | XI q -> go q (ZA.add acc (ZA.shift_left ZA.one shift)) (shift + 1)
  in go p ZA.zero 0

let zarith_of_z (x : z) : ZA.t =
  match x with Z0 -> ZA.zero | Zpos p -> zarith_of_pos p | Zneg p -> ZA.neg (zarith_of_pos p)

let z_of_string s = z_of_zarith (ZA.of_string s)
let string_of_z x = ZA.to_string (zarith_of_z x)
let z_of_int i = z_of_zarith (ZA.of_int i)
let int_of_z x = ZA.to_int (zarith_of_z x)

let n_of_string s : n = match z_of_string s with Z0 -> N0 | Zpos p -> Npos p | Zneg _ -> failwith "negative N"
let string_of_n (x : n) = match x with N0 -> "0" | Npos p -> ZA.to_string (zarith_of_pos p)
let n_of_int i : n = match z_of_int i with Z0 -> N0 | Zpos p -> Npos p | Zneg _ -> failwith "negative N"
let int_of_n (x : n) = match x with N0 -> 0 | Npos p -> ZA.to_int (zarith_of_pos p)

let rec nat_of_int i : nat = if i <= 0 then O else S (nat_of_int (i - 1))
let rec int_of_nat (x : nat) = match x with O -> 0 | S y -> 1 + int_of_nat y

let sgn_of_z x = match x with Z0 -> 0 | Zpos _ -> 1 | Zneg _ -> -1

let split_ws s = List.filter (fun x -> x <> "") (String.split_on_char ' ' s)
let string_of_bool01 b = if b then "1" else "0"

(* ---- polynomial text I/O (same grammar and canonical order as harness/polyio.h) *)
let parse_term (s : string) : (n * n) list * z =
  match String.split_on_char '*' s with
  | [] -> failwith "empty term"
  | c :: pows ->
    let pw p =
      (* "x<i>^<e>" *)
      let k = String.index p '^' in
      (n_of_string (String.sub p 1 (k - 1)), n_of_string (String.sub p (k + 1) (String.length p - k - 1))) in
    let ps = List.filter (fun (_, e) -> e <> N0) (List.map pw pows) in
    let ps = List.sort (fun (a, _) (b, _) -> compare (int_of_n a) (int_of_n b)) ps in
    (ps, z_of_string c)

let mpoly_of_string (s : string) : mpoly =
  if s = "0" then [] else mp_of_terms (List.map parse_term (String.split_on_char '+' s))

let string_of_mpoly (p : mpoly) : string =
  match p with
  | [] -> "0"
  | _ ->
    String.concat "+" (List.map (fun (m, c) ->
      string_of_z c ^ String.concat "" (List.map (fun (x, e) -> "*x" ^ string_of_n x ^ "^" ^ string_of_n e) m)) p)

(* dense univariate: "c0,c1,...,cn" low degree first; "0" or "" for zero *)
let upoly_of_string (s : string) : z list =
  if s = "" then [] else List.map z_of_string (String.split_on_char ',' s)
let string_of_upoly (p : z list) : string =
  match pnorm p with [] -> "0" | q -> String.concat "," (List.map string_of_z q)
