(* Trusted glue: decimal text <-> extracted Z/N/nat (via zarith for the decimal conversion only). *)
module ZA = Z
open Model

let rec pos_of_zarith (x : ZA.t) : positive =
  if ZA.equal x ZA.one then XH
  else if ZA.is_even x then XO (pos_of_zarith (ZA.shift_right x 1))
  else XI (pos_of_zarith (ZA.shift_right x 1))

let z_of_zarith (x : ZA.t) : z =
  let s = ZA.sign x in
  if s = 0 then Z0 else if s > 0 then Zpos (pos_of_zarith x) else Zneg (pos_of_zarith (ZA.neg x))

let zarith_of_pos (p : positive) : ZA.t =
  (* iterative to avoid deep recursion on big numbers *)
  let rec go p acc shift =
    match p with
    | XH -> ZA.add acc (ZA.shift_left ZA.one shift)
    | XO q -> go q acc (shift + 1)
    | XI q -> go q (ZA.add acc (ZA.shift_left ZA.one shift)) (shift + 1)
  in go p ZA.zero 0

let zarith_of_z (x : z) : ZA.t =
  match x with Z0 -> ZA.zero | Zpos p -> zarith_of_pos p | Zneg p -> ZA.neg (zarith_of_pos p)

let z_of_string s = z_of_zarith (ZA.of_string s)
let string_of_z x = ZA.to_string (zarith_of_z x)
let z_of_int i = z_of_zarith (ZA.of_int i)
let int_of_z x = ZA.to_int (zarith_of_z x)

let n_of_string s : n = match z_of_string s with Z0 -> N0 | Zpos p -> Npos p | Zneg _ -> failwith "negative N"
let string_of_n (x : n) = match x with N0 -> "0" | Npos p -> ZA.to_string (zarith_of_pos p)
let n_of_int i : n = match z_of_int i with Z0 -> N0 | Zpos p -> Npos p | Zneg _ -> failwith "negative N"
let int_of_n (x : n) = match x with N0 -> 0 | Npos p -> ZA.to_int (zarith_of_pos p)

let rec nat_of_int i : nat = if i <= 0 then O else S (nat_of_int (i - 1))
let rec int_of_nat (x : nat) = match x with O -> 0 | S y -> 1 + int_of_nat y

let sgn_of_z x = match x with Z0 -> 0 | Zpos _ -> 1 | Zneg _ -> -1

let split_ws s = List.filter (fun x -> x <> "") (String.split_on_char ' ' s)
let string_of_bool01 b = if b then "1" else "0"

(* ---- polynomial text I/O (same grammar and canonical order as harness/polyio.h) *)
let parse_term (s : string) : (n * n) list * z =
  match String.split_on_char '*' s with
  | [] -> failwith "empty term"
  | c :: pows ->
    let pw p =
      (* "x<i>^<e>" *)
      let k = String.index p '^' in
      (n_of_string (String.sub p 1 (k - 1)), n_of_string (String.sub p (k + 1) (String.length p - k - 1))) in
    let ps = List.filter (fun (_, e) -> e <> N0) (List.map pw pows) in
    let ps = List.sort (fun (a, _) (b, _) -> compare (int_of_n a) (int_of_n b)) ps in
    (ps, z_of_string c)

let mpoly_of_string (s : string) : mpoly =
  if s = "0" then [] else mp_of_terms (List.map parse_term (String.split_on_char '+' s))

let string_of_mpoly (p : mpoly) : string =
  match p with
  | [] -> "0"
  | _ ->
    String.concat "+" (List.map (fun (m, c) ->
      string_of_z c ^ String.concat "" (List.map (fun (x, e) -> "*x" ^ string_of_n x ^ "^" ^ string_of_n e) m)) p)

(* dense univariate: "c0,c1,...,cn" low degree first; "0" or "" for zero *)
let upoly_of_string (s : string) : z list =
  if s = "" then [] else List.map z_of_string (String.split_on_char ',' s)
let string_of_upoly (p : z list) : string =
  match pnorm p with [] -> "0" | q -> String.concat "," (List.map string_of_z q)

(* ---- value text I/O (same tokens as harness/valio.h) *)
let big_fuel = nat_of_int 2000

let rat_of_dy_string (s : string) : rat =
  (* "a/n" meaning a / 2^n *)
  let k = String.index s '/' in
  let a = z_of_string (String.sub s 0 k) and n = n_of_string (String.sub s (k + 1) (String.length s - k - 1)) in
  match q_canon (a, pow2 n) with Some q -> q | None -> failwith "bad dyadic"

let rat_of_q_string (s : string) : rat =
  let k = String.index s '/' in
  let a = z_of_string (String.sub s 0 k) and d = z_of_string (String.sub s (k + 1) (String.length s - k - 1)) in
  match q_canon (a, d) with Some q -> q | None -> failwith "bad rational"

(* kind: "z" | "d" | "q" | "a" (algebraic, proper interval) | "p" (algebraic, point) | "r" | "-inf" | "+inf" | "none" *)
exception Bad_value of string
let value_of_token (tok : string) : string * xval =
  if tok = "-inf" then ("-inf", XMinf) else if tok = "+inf" then ("+inf", XPinf) else
  let parts = String.split_on_char ':' tok in
  match parts with
  | ["z"; a] -> ("z", XFin (RQ (z_of_string a, z_of_int 1)))
  | ["d"; s] -> ("d", XFin (RQ (rat_of_dy_string s)))
  | ["p"; s] -> ("p", XFin (RQ (rat_of_dy_string s)))
  | ["q"; s] -> ("q", XFin (RQ (rat_of_q_string s)))
  | ["r"; cs; k] ->
    (match rn_roots big_fuel (upoly_of_string cs) with
     | Some rs -> (try ("r", XFin (List.nth rs (int_of_string k))) with _ -> raise (Bad_value "no such root"))
     | None -> raise (Bad_value "fuel"))
  | "a" :: cs :: lo :: hi :: rest ->
    let p = upoly_of_string cs in
    let x = RA (p, rat_of_dy_string lo, rat_of_dy_string hi) in
    if not (rn_valid x) then raise (Bad_value ("invalid algebraic representation " ^ tok));
    (match rest with
     | [sa; sb] ->
       if string_of_int (sgn_of_z (psgn_q p (rat_of_dy_string lo))) <> sa || string_of_int (sgn_of_z (psgn_q p (rat_of_dy_string hi))) <> sb
       then raise (Bad_value ("stale sign cache in " ^ tok))
     | _ -> ());
    ("a", XFin (rn_norm x))
  | _ -> raise (Bad_value ("unparsable value " ^ tok))

let rnum_of_token tok = match value_of_token tok with (_, XFin x) -> x | _ -> raise (Bad_value "finite value expected")

let string_of_rat (q : rat) = string_of_z (fst q) ^ "/" ^ string_of_z (snd q)
let string_of_rnum (x : rnum) =
  match x with
  | RQ q -> "q:" ^ string_of_rat q
  | RA (p, lo, hi) -> "alg:" ^ string_of_upoly p ^ ":(" ^ string_of_rat lo ^ "," ^ string_of_rat hi ^ ")"
let string_of_xval v = match v with XMinf -> "-inf" | XPinf -> "+inf" | XFin x -> string_of_rnum x
