(* C20 model driver: polynomial containers.  Elements are pool indices (OCaml ints); the hash function
   of the model is the table of lp_polynomial_hash values that the C side printed for this very case
   (tokens after "=>"), the heap comparison is the table of keys of the case line.
   hs / vc and hp-without-ties: prints the line the C side must have printed.
   hp with ties among the keys: the popped element is not determined by the property, so the proved
   acceptance test heap_check_step is run on the implementation's outputs -> CHECK ok / CHECK fail. *)
open Model
open Io

let ids_of s = if s = "-" || s = "" then [] else List.map int_of_string (String.split_on_char '.' s)
let str_ids l = String.concat "." (List.map string_of_int l)
let tail_from s i = String.sub s i (String.length s - i)
let rec take n l = if n = 0 then [] else match l with [] -> [] | x :: r -> x :: take (n - 1) r
let rec drop n l = if n = 0 then l else match l with [] -> [] | _ :: r -> drop (n - 1) r

exception Stop of string   (* model returned None: assertion of the C code / fuel *)

let eqb (a : int) (b : int) = a = b

(* pool: p quadruples (+ key); returns (specs, keys, remaining tokens) *)
let read_pool toks with_key =
  match toks with
  | ps :: rest ->
    let p = int_of_string ps in
    let specs = Array.make p (0, 0, 0, 0) and keys = Array.make p 0 in
    let r = ref rest in
    let next () = match !r with x :: tl -> r := tl; int_of_string x | [] -> failwith "short pool" in
    for k = 0 to p - 1 do
      let a = next () in let i = next () in let j = next () in let b = next () in
      specs.(k) <- (a, i, j, b);
      if with_key then keys.(k) <- next ()
    done;
    (specs, keys, !r)
  | [] -> failwith "no pool"

let zero_id specs =
  let z = ref (-1) in
  Array.iteri (fun k (a, _, _, b) -> if a = 0 && b = 0 && !z < 0 then z := k) specs; !z

(* ------------------------------------------------------------------------------------------ hash set *)
let run_hs toks cout =
  let (specs, _, ops) = read_pool toks false in
  let p = Array.length specs in
  let hs = match cout with
    | "H" :: rest when List.length rest >= p -> Array.of_list (List.map n_of_string (take p rest))
    | _ -> raise (Stop "SKIP no hashes in the implementation's output") in
  let h (e : int) : n = if e >= 0 && e < p then hs.(e) else N0 in
  let zero = zero_id specs in
  let is_zero e = e = zero || (e >= 0 && e < p && (let (a, _, _, b) = specs.(e) in a = 0 && b = 0)) in
  let step s o = match hs_step eqb h zero s o with Some x -> x | None -> raise (Stop "FUEL") in
  let buf = Buffer.create 4096 in
  Buffer.add_string buf "H";
  Array.iter (fun x -> Buffer.add_char buf ' '; Buffer.add_string buf (string_of_n x)) hs;
  let s = ref hs_new in
  List.iter (fun op ->
    Buffer.add_string buf " ;";
    let arg = tail_from op 1 in
    let out =
      match op.[0] with
      | 'i' -> (match step !s (OInsert (int_of_string arg)) with (s', RBool b) -> s := s'; string_of_bool01 b | _ -> "?")
      | 'm' -> (match step !s (OInsertMove (int_of_string arg)) with
                | (s', RMoved (b, src)) -> s := s'; string_of_bool01 b ^ (if is_zero src then "z" else "s")
                | _ -> "?")
      | 'v' -> (match step !s (OInsertVec (ids_of arg)) with (s', RNat n) -> s := s'; string_of_int (int_of_nat n) | _ -> "?")
      | 'r' -> (match step !s (ORemove (int_of_string arg)) with (s', RBool b) -> s := s'; string_of_bool01 b | _ -> "?")
      | 'x' -> (match step !s (OIntersect (ids_of arg)) with (s', _) -> s := s'; "-")
      | 'c' -> (match step !s OClear with (s', _) -> s := s'; "-")
      | 'e' -> (match step !s OSize with (_, RNat n) -> string_of_bool01 (int_of_nat n = 0) | _ -> "?")
      | 'z' ->
        let (s', _) = step !s OClose in
        s := s';
        let n = int_of_nat (hs_size s') in
        let got = ref [] in
        for k = 0 to n - 1 do
          (match step s' (OAt (nat_of_int k)) with
           | (_, RElem (Some e)) -> got := e :: !got
           | _ -> got := (-2) :: !got)
        done;
        let past k = match step s' (OAt (nat_of_int k)) with (_, RElem None) -> true | _ -> false in
        "a:" ^ str_ids (List.sort compare !got) ^ " n" ^ string_of_bool01 (past n && past (n + 5))
      | _ -> "?" in
    Buffer.add_char buf ' '; Buffer.add_string buf out;
    Buffer.add_char buf ' '; Buffer.add_string buf (string_of_int (int_of_nat (hs_size !s)));
    Buffer.add_char buf ' ';
    if closed !s then Buffer.add_string buf "closed"
    else for k = 0 to p - 1 do
      match hs_contains eqb h !s k with
      | Some b -> Buffer.add_string buf (string_of_bool01 b)
      | None -> raise (Stop "FUEL")
    done) ops;
  Buffer.add_string buf " ; leak=0";
  Buffer.contents buf

(* ------------------------------------------------------------------------------------------ heap *)
let split_groups (cout : string list) : string list list =
  (* tokens separated by ";" *)
  let rec go acc cur = function
    | [] -> List.rev (List.rev cur :: acc)
    | ";" :: r -> go (List.rev cur :: acc) [] r
    | t :: r -> go acc (t :: cur) r in
  go [] [] cout

let run_hp toks cout =
  let (specs, keys, ops) = read_pool toks true in
  let p = Array.length specs in
  let key e = if e >= 0 && e < p then keys.(e) else -1000000 in
  let cmp a b = z_of_int (key a - key b) in
  let zero = -1 in
  let distinct = (let l = List.sort compare (Array.to_list keys) in
                  let rec ok = function a :: (b :: _ as r) -> a <> b && ok r | _ -> true in ok l) in
  let step a o = match heap_step eqb zero cmp a o with Some x -> x | None -> raise (Stop "FUEL") in
  (* faithful model *)
  let buf = Buffer.create 4096 in
  Buffer.add_string buf "P";
  let a = ref [] in
  let str_elem = function Some e -> string_of_int e | None -> "N" in
  List.iter (fun op ->
    Buffer.add_string buf " ;";
    let arg = tail_from op 1 in
    let out =
      match op.[0] with
      | 'p' -> let (a', _) = step !a (HPush (int_of_string arg)) in a := a'; "-"
      | 'q' -> (match step !a (HPushMove (int_of_string arg)) with
                | (a', HRMoved z) -> a := a'; if z = zero then "z" else "s" | _ -> "?")
      | 'v' -> let (a', _) = step !a (HPushVec (ids_of arg)) in a := a'; "-"
      | 'o' -> (match step !a HPop with (a', HRElem r) -> a := a'; str_elem r | _ -> "?")
      | 'k' -> (match step !a HPeek with (_, HRElem r) -> str_elem r | _ -> "?")
      | 'r' -> (match step !a (HRemove (int_of_string arg)) with (a', HRNat n) -> a := a'; string_of_int (int_of_nat n) | _ -> "?")
      | 't' -> (match step !a HPeek with
                | (_, HRElem (Some m)) ->
                  (match step !a (HRemove m) with
                   | (a', HRNat n) -> a := a'; string_of_int m ^ ":" ^ string_of_int (int_of_nat n) | _ -> "?")
                | _ -> "N")
      | 'c' -> let (a', _) = step !a HClear in a := a'; "-"
      | 's' -> string_of_bool01 (int_of_nat (heap_size !a) = 0)
      | _ -> "?" in
    Buffer.add_char buf ' '; Buffer.add_string buf out;
    Buffer.add_char buf ' '; Buffer.add_string buf (string_of_int (int_of_nat (heap_size !a)));
    (* C20_heap_refines: the heap order holds after every operation *)
    Buffer.add_string buf " h1") ops;
  Buffer.add_string buf " ; D";
  let rec drain () = match step !a HPop with
    | (a', HRElem (Some e)) -> a := a'; Buffer.add_char buf ' '; Buffer.add_string buf (string_of_int e); drain ()
    | _ -> () in
  drain ();
  Buffer.add_string buf " ; leak=0";
  let exact = Buffer.contents buf in
  if distinct then exact
  else begin
    (* ties: run the proved acceptance test on the implementation's outputs *)
    let fail k why = "CHECK fail step " ^ string_of_int k ^ ": " ^ why ^ " | faithful model: " ^ exact in
    match split_groups cout with
    | ["P"] :: groups ->
      let m = ref [] in
      let chk k o r = match heap_check_step eqb zero cmp !m o r with
        | Some m' -> m := m'; None
        | None -> Some (fail k "result not allowed by the multiset specification") in
      let elem_of s = if s = "N" then None else Some (int_of_string s) in
      let rec go k ops groups =
        match ops, groups with
        | [], [("D" :: popped); [refs]] ->
          let rec dr k = function
            | [] -> (match chk k HPop (HRElem None) with Some e -> e
                     | None -> if refs = "leak=0" then
                                 (if String.concat " " cout = tail_from exact 0 then "CHECK ok exact" else "CHECK ok tie-divergent")
                               else fail k ("bytes leaked: " ^ refs))
            | x :: r -> (match chk k HPop (HRElem (elem_of x)) with Some e -> e | None -> dr (k + 1) r) in
          dr k popped
        | op :: ops', [ret; size; "h0"] :: _ ->
          ignore (ret, size, op); fail k "the array is not heap ordered after this operation (some element is above its parent)"
        | op :: ops', [ret; size; "h1"] :: groups' ->
          let arg = tail_from op 1 in
          let res =
            (match op.[0] with
             | 'p' -> if ret = "-" then chk k (HPush (int_of_string arg)) HRUnit else Some (fail k "bad token")
             | 'q' -> chk k (HPushMove (int_of_string arg)) (HRMoved (if ret = "z" then zero else int_of_string arg))
             | 'v' -> chk k (HPushVec (ids_of arg)) HRUnit
             | 'o' -> chk k HPop (HRElem (elem_of ret))
             | 'k' -> chk k HPeek (HRElem (elem_of ret))
             | 'r' -> chk k (HRemove (int_of_string arg)) (HRNat (nat_of_int (int_of_string ret)))
             | 't' -> if ret = "N" then chk k HPeek (HRElem None)
                      else (match String.split_on_char ':' ret with
                            | [mid; cnt] ->
                              (match chk k HPeek (HRElem (Some (int_of_string mid))) with
                               | Some e -> Some e
                               | None -> chk k (HRemove (int_of_string mid)) (HRNat (nat_of_int (int_of_string cnt))))
                            | _ -> Some (fail k "bad token"))
             | 'c' -> chk k HClear HRUnit
             | 's' -> if (ret = "1") = (!m = []) then None else Some (fail k "is_empty wrong")
             | _ -> Some (fail k "unknown op")) in
          (match res with
           | Some e -> e
           | None ->
             if int_of_string size <> List.length !m then fail k ("size " ^ size ^ " but the multiset has " ^ string_of_int (List.length !m))
             else go (k + 1) ops' groups')
        | _ -> fail k "output does not have one group per operation" in
      (try go 0 ops groups with Failure _ -> fail (-1) "unparsable output")
    | _ -> fail (-1) "unparsable output"
  end

(* ------------------------------------------------------------------------------------------ computed elements
   hc: the set elements are value ids assigned by the C driver (values are RESULTS of polynomial operations;
   what an operation computes is C01's business and is taken from the C output: "=" and the register value ids
   "R:" of compute steps are echoed).  Checked here: with h = the hashes of the independently built polynomials
   (group "T"), every insert / remove / contains - asked with the computed object itself or with an independently
   built equal polynomial - behaves as on a mathematical set of VALUES. *)
let run_hc toks cout =
  let toks = match toks with _m :: rest -> rest | [] -> [] in
  let (specs, _, rest) = read_pool toks false in
  let p = Array.length specs in
  let (nr, ops) = match rest with x :: r -> (int_of_string x, r) | [] -> (1, []) in
  let groups = Array.of_list (split_groups cout) in
  let ng = Array.length groups in
  let nops = List.length ops in
  if ng <> nops + 3 then raise (Stop "CHECK fail the implementation's line does not have one group per operation (HANG / ABORT?)");
  let pool_vid = match groups.(0) with
    | "C" :: v when List.length v = p -> Array.of_list (List.map int_of_string v)
    | _ -> raise (Stop "CHECK fail unparsable header") in
  let hs = match groups.(ng - 2) with
    | "T" :: v -> Array.of_list (List.map n_of_string v)
    | _ -> raise (Stop "CHECK fail no hash table in the implementation's output") in
  let h (e : int) : n = if e >= 0 && e < Array.length hs then hs.(e) else N0 in
  let zero = 0 in
  let step s o = match hs_step eqb h zero s o with Some x -> x | None -> raise (Stop "FUEL") in
  let regs = ref (Array.make nr 0) in
  let known = ref (Array.fold_left max 0 pool_vid + 1) in
  let src_vid a =
    let k = int_of_string (tail_from a 1) in
    if a.[0] = 'p' then pool_vid.(k) else !regs.(k) in
  let buf = Buffer.create 4096 in
  Buffer.add_string buf (String.concat " " groups.(0));
  let s = ref hs_new in
  List.iteri (fun idx op ->
    Buffer.add_string buf " ;";
    let g = groups.(idx + 1) in
    let c_ret = match g with r :: _ -> r | [] -> "?" in
    let c_regs = (match List.rev g with
      | r :: _ when String.length r > 2 && String.sub r 0 2 = "R:" ->
        Array.of_list (List.map int_of_string (String.split_on_char '.' (tail_from r 2)))
      | _ -> raise (Stop "CHECK fail unparsable group")) in
    let arg = tail_from op 1 in
    let out =
      match op.[0] with
      | 'h' -> "-"
      | 'C' -> regs := c_regs; c_ret                      (* the computed values are taken from C *)
      | 'i' | 'I' -> (match step !s (OInsert (src_vid arg)) with (s', RBool b) -> s := s'; string_of_bool01 b | _ -> "?")
      | 'r' | 'R' -> (match step !s (ORemove (src_vid arg)) with (s', RBool b) -> s := s'; string_of_bool01 b | _ -> "?")
      | 'm' -> (match step !s (OInsertMove (src_vid arg)) with
                | (s', RMoved (b, _)) -> s := s'; string_of_bool01 b ^ (if b then "z" else "s") | _ -> "?")
      | 'k' -> (match step !s OClear with (s', _) -> s := s'; "-")
      | 'z' ->
        let (s', _) = step !s OClose in
        s := s';
        let n = int_of_nat (hs_size s') in
        let got = ref [] in
        for k = 0 to n - 1 do
          (match step s' (OAt (nat_of_int k)) with (_, RElem (Some e)) -> got := e :: !got | _ -> got := (-2) :: !got)
        done;
        "a:" ^ str_ids (List.sort compare !got)
      | _ -> "?" in
    Array.iter (fun v -> if v + 1 > !known then known := v + 1) !regs;
    Buffer.add_char buf ' '; Buffer.add_string buf out;
    Buffer.add_char buf ' '; Buffer.add_string buf (string_of_int (int_of_nat (hs_size !s)));
    Buffer.add_char buf ' ';
    if closed !s then Buffer.add_string buf "closed closed"
    else begin
      let bit e = match hs_contains eqb h !s e with Some b -> string_of_bool01 b | None -> raise (Stop "FUEL") in
      for e = 0 to !known - 1 do Buffer.add_string buf (bit e) done;
      Buffer.add_char buf ' ';
      Array.iter (fun e -> Buffer.add_string buf (bit e)) !regs
    end;
    Buffer.add_string buf (" R:" ^ str_ids (Array.to_list !regs))) ops;
  Buffer.add_string buf (" ; " ^ String.concat " " groups.(ng - 2) ^ " ; leak=0");
  Buffer.contents buf

(* ------------------------------------------------------------------------------------------ vector *)
let run_vc toks =
  let (specs, _, ops) = read_pool toks false in
  let zero = -1 in
  ignore specs;
  let buf = Buffer.create 4096 in
  Buffer.add_string buf "V";
  let v = ref [] in
  List.iter (fun op ->
    Buffer.add_string buf " ;";
    let arg = tail_from op 1 in
    let out =
      match op.[0] with
      | 'p' -> v := vec_step zero !v (VPush (int_of_string arg)); "-"
      | 'q' -> let (v', src) = vec_push_move zero !v (int_of_string arg) in v := v'; if src = zero then "z" else "s"
      | 't' -> v := vec_step zero !v VReset; "-"
      | 'y' -> "-"
      | _ -> "?" in
    let n = int_of_nat (vec_size !v) in
    let ids = List.init n (fun i -> match vec_at !v (nat_of_int i) with Some e -> e | None -> -2) in
    Buffer.add_string buf (" " ^ out ^ " " ^ string_of_int n ^ " a:" ^ str_ids ids)) ops;
  Buffer.add_string buf " ; leak=0";
  Buffer.contents buf

let run (toks : string list) (cout : string list) : string =
  try
    match toks with
    | "hashes" :: _ -> String.concat " " cout     (* a query, nothing to check *)
    | "hs" :: rest -> run_hs rest cout
    | "hp" :: rest -> run_hp rest cout
    | "vc" :: rest -> run_vc rest
    | "hc" :: rest -> run_hc rest cout
    | _ -> "UNKNOWN-OP"
  with Stop s -> s
