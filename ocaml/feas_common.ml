(* Shared glue of the C11 / C12 model drivers: case parsing and the REFERENCE computations (exact real roots and
   exact signs of the specialised polynomial), built from the extracted reference bases UPoly / MPoly / RefAlg:
   Sturm counting (count_open), gcd, resultants (bires), real root isolation (rn_roots), exact comparison (rn_cmp).
   Nothing here models libpoly's algorithm; the modelled sweeps live in coq/FeasSweep.v (extracted).

   Exact arithmetic used (each an independent re-derivation, none calls libpoly):
     sign of P(alpha), P in Z[x]          gcd(P, m) has the root alpha, else refine alpha until P has no root in
                                          the enclosure (Sturm) and read the sign at an end point
     value b(alpha)/a(alpha)              the root of Res_x(a y - b, m1) located by exact comparisons with
                                          rational separators  (m1 = m without the factors shared with a)
     roots of A(alpha, y)                 candidates = real roots of Res_x(A, m1); when A(alpha, y) is square-free
                                          (discriminant non-zero at alpha) a candidate is a root iff the sign of
                                          A(alpha, .) changes across its isolating interval; rational candidates
                                          are tested directly
     two irrational parameters            only tiny factor structures, through RefAlg's field operations *)
open Model
open Io

exception Model_error of string
exception Fuel
exception Skip of string

let fuel = nat_of_int 4000
let some_or_fuel = function Some x -> x | None -> raise Fuel

let zi = z_of_int
let q0 : rat = (zi 0, zi 1)
let ni = int_of_n
let deg_of (p : poly) : int = int_of_nat (pdeg p)

(* ---------------------------------------------------------------- the case *)
type case = {
  op : string;
  order : int list;            (* bottom first; last = y *)
  y : n;
  poly : mpoly;
  assign : (int * rnum) list;  (* assigned variables (never y) *)
  extra : string list;         (* model-only tokens after "|" *)
}

let rec split_bar = function
  | [] -> ([], [])
  | "|" :: r -> ([], r)
  | x :: r -> let (a, b) = split_bar r in (x :: a, b)

(* collapse a number that happens to be rational *)
let simplify (x : rnum) : rnum =
  match x with
  | RQ _ -> x
  | RA (_, _, _) -> (match rn_to_rational fuel x with Some q -> RQ q | None -> x)

let parse_case (toks : string list) : case =
  let (main, extra) = split_bar toks in
  match main with
  | op :: ord :: p :: na :: rest ->
    let order = List.map int_of_string (String.split_on_char ',' ord) in
    let na = int_of_string na in
    let rec take k l = if k = 0 then [] else match l with
        | v :: t :: r -> (int_of_string v, simplify (rnum_of_token t)) :: take (k - 1) r
        | _ -> failwith "short assignment" in
    { op; order; y = n_of_int (List.nth order (List.length order - 1)); poly = mpoly_of_string p;
      assign = take na rest; extra }
  | _ -> failwith "short case"

let alg_params (c : case) = List.filter (fun (_, v) -> match v with RA _ -> true | RQ _ -> false) c.assign

(* ---------------------------------------------------------------- exact numbers *)
let cmp_rn a b : int = sgn_of_z (some_or_fuel (rn_cmp fuel a b))
let eq_rn a b = (cmp_rn a b = 0)

(* a rational strictly between a < b *)
let rat_between (a : rnum) (b : rnum) : rat =
  let rec go k a b =
    if k = 0 then raise Fuel else
    let ha = rn_hi a and lb = rn_lo b in
    if q_lt ha lb then q_mid ha lb
    else
      (match a, b with
       | RQ _, RQ _ -> raise (Model_error "rat_between: not increasing")
       | _ -> go (k - 1) (rn_refine a) (rn_refine b)) in
  go 400 a b

let sort_dedup (l : rnum list) : rnum list =
  let s = List.sort cmp_rn l in
  let rec dd = function
    | a :: b :: r -> if eq_rn a b then dd (a :: r) else a :: dd (b :: r)
    | l -> l in
  dd s

(* sign of P(alpha) for an integer polynomial P *)
let sign_alg (p : poly) (alpha : rnum) : int =
  let p = pnorm p in
  if pis_zero p then 0 else
  match alpha with
  | RQ q -> sgn_of_z (psgn_q p q)
  | RA (m, lo, hi) ->
    if deg_of p = 0 then sgn_of_z (plc p) else
    let g = pgcd p m in
    if deg_of g >= 1 && int_of_nat (count_open (psqfree g) lo hi) >= 1 then 0
    else begin
      let ps = psqfree p in
      let rec go k x =
        if k = 0 then raise Fuel else
        match x with
        | RQ q -> sgn_of_z (psgn_q p q)
        | RA (_, lo, hi) ->
          if sgn_of_z (psgn_q ps lo) <> 0 && sgn_of_z (psgn_q ps hi) <> 0 && int_of_nat (count_open ps lo hi) = 0
          then sgn_of_z (psgn_q p lo)
          else go (k - 1) (rn_refine x) in
      go 400 alpha
    end

(* substitute the rational value n/d for x, clearing denominators with d^deg (positive) *)
let subst_rat (x : n) (q : rat) (p : mpoly) : mpoly =
  let dg = mp_degree x p in
  let (nu, de) = q in
  mp_of_terms (List.map (fun (m, co) ->
      let e = mono_deg x m in
      let f = Z.mul (Z.pow nu (Z.of_N e)) (Z.pow de (Z.of_N (N.sub dg e))) in
      (mono_remove x m, Z.mul co f)) p)

(* all rationally assigned variables (and y := q when given) substituted; positive multiplier *)
let reduce_rationals (c : case) (yq : rat option) (p : mpoly) : mpoly =
  let p = List.fold_left (fun p (v, r) -> match r with RQ q -> subst_rat (n_of_int v) q p | RA _ -> p) p c.assign in
  match yq with Some q -> subst_rat c.y q p | None -> p

let vars_of (p : mpoly) : int list = List.sort_uniq compare (List.map ni (mp_vars p))

(* exact sign of p at the assignment (y := yq when p contains y) *)
let sign_poly (c : case) (yq : rat option) (p : mpoly) : int =
  let p = reduce_rationals c yq p in
  match vars_of p with
  | [] -> (match p with [] -> 0 | (_, co) :: _ -> sgn_of_z co)
  | [x] ->
    let alpha = (try List.assoc x c.assign with Not_found -> raise (Model_error "unassigned variable")) in
    sign_alg (mp_to_upoly (n_of_int x) p) alpha
  | _ ->
    if List.length p > 4 then raise (Skip "exact evaluation with two irrational parameters only for tiny polynomials");
    let rho v = (try List.assoc (ni v) c.assign with Not_found -> raise (Model_error "unassigned variable")) in
    sgn_of_z (rn_sgn (some_or_fuel (mp_eval_rn fuel rho p)))

(* exact value of p (without y) at the assignment; one irrational parameter through a single resultant *)
let rec strip_common (m : poly) (c : poly) : poly =
  let g = pgcd m c in
  if deg_of g < 1 then m
  else match pdiv_exact (ppp m) (ppp g) with
    | Some m' -> strip_common (ppp m') c
    | None -> raise (Model_error "strip_common: inexact division")

(* num(alpha)/den(alpha), den(alpha) <> 0 *)
let value_alg (num : poly) (den : poly) (alpha : rnum) : rnum =
  match alpha with
  | RQ q ->
    (* exact rational arithmetic: evaluate by Horner over rat *)
    let ev p = List.fold_right (fun co acc -> q_add (co, zi 1) (q_mul acc q)) p q0 in
    (match q_div (ev num) (ev den) with Some v -> RQ v | None -> raise (Model_error "value_alg: zero denominator"))
  | RA (m, _, _) ->
    let m = strip_common (psqfree m) den in
    let sden = sign_alg den alpha in
    if sden = 0 then raise (Model_error "value_alg: zero denominator");
    (* R(y) = Res_x(den(x) y - num(x), m(x)) *)
    let k = max (List.length num) (List.length den) in
    let co l j = (try List.nth l j with _ -> zi 0) in
    let a = bp_trim (List.init k (fun j -> pnorm [Z.opp (co num j); co den j])) in
    let r = (match a with
        | [a0] -> a0
        | _ -> bires a (bp_of_upoly m)) in
    if pis_zero r then raise (Model_error "value_alg: resultant vanished");
    let cands = some_or_fuel (rn_roots fuel r) in
    (* t ? q  for rational q:  sign(num - q den) * sign(den) *)
    let cmp_t_q (q : rat) : int =
      let (qn, qd) = q in
      let d = List.init k (fun j -> Z.sub (Z.mul qd (co num j)) (Z.mul qn (co den j))) in
      sign_alg d alpha * sden in
    let arr = Array.of_list cands in
    let n = Array.length arr in
    if n = 0 then raise (Model_error "value_alg: no candidate");
    let rec find k =
      if k = n - 1 then arr.(k)
      else if cmp_t_q (rat_between arr.(k) arr.(k + 1)) < 0 then arr.(k)
      else find (k + 1) in
    simplify (find 0)

(* exact value of a polynomial without y at the assignment *)
let value_poly (c : case) (p : mpoly) : rnum =
  let p = reduce_rationals c None p in
  match vars_of p with
  | [] -> (match p with [] -> RQ q0 | (_, co) :: _ -> RQ (co, zi 1))
  | [x] -> value_alg (mp_to_upoly (n_of_int x) p) [zi 1] (List.assoc x c.assign)
  | _ ->
    if List.length p > 4 then raise (Skip "exact evaluation with two irrational parameters only for tiny polynomials");
    let rho v = (try List.assoc (ni v) c.assign with Not_found -> raise (Model_error "unassigned variable")) in
    simplify (some_or_fuel (mp_eval_rn fuel rho p))

(* ---------------------------------------------------------------- the specialised polynomial *)
type spec = { degree : int; sgn_lc : int; sgn_const : int; ident_zero : bool }

let specialise (c : case) : spec =
  let cs = mp_coeffs c.y c.poly in
  let sg = List.map (fun p -> sign_poly c None p) cs in
  let rec top i best = function [] -> best | s :: r -> top (i + 1) (if s <> 0 then i else best) r in
  let d = top 0 (-1) sg in
  { degree = max d 0; sgn_lc = (if d < 0 then 0 else List.nth sg d);
    sgn_const = (match sg with s :: _ -> s | [] -> 0); ident_zero = (d < 0) }

(* ---------------------------------------------------------------- factor structure (model-only tokens) *)
type factor = Lc of mpoly | Lin of mpoly * mpoly | Quad of mpoly

let structure (c : case) : factor list option =
  let key k s = let l = String.length k in String.length s > l && String.sub s 0 l = k in
  let rest k s = String.sub s (String.length k) (String.length s - String.length k) in
  let toks = List.filter (fun s -> key "lc=" s || key "lin=" s || key "quad=" s) c.extra in
  if toks = [] then None else begin
    let yv = mp_var_pow c.y (n_of_int 1) in
    let factors = List.map (fun s ->
        if key "lc=" s then Lc (mpoly_of_string (rest "lc=" s))
        else if key "lin=" s then
          (match String.split_on_char ';' (rest "lin=" s) with
           | [a; b] -> Lin (mpoly_of_string a, mpoly_of_string b)
           | _ -> failwith "lin")
        else Quad (mpoly_of_string (rest "quad=" s))) toks in
    let prod = List.fold_left (fun acc f ->
        mp_mul acc (match f with
            | Lc p -> p
            | Lin (a, b) -> mp_sub (mp_mul a yv) b
            | Quad q -> q)) (mp_const (zi 1)) factors in
    if not (mp_eqb prod c.poly) then raise (Model_error "factor structure does not multiply back");
    Some factors
  end

(* degree / leading sign / constant sign from the factor structure (used with two irrational parameters, where
   the expanded coefficients are too expensive to evaluate exactly) *)
let specialise_struct (c : case) (fs : factor list) : spec =
  let one (cs : mpoly list) : int * int * bool =      (* degree, leading sign, identically zero *)
    let sg = List.map (fun p -> sign_poly c None p) cs in
    let rec top i best = function [] -> best | s :: r -> top (i + 1) (if s <> 0 then i else best) r in
    let d = top 0 (-1) sg in
    if d < 0 then (0, 0, true) else (d, List.nth sg d, false) in
  let parts = List.map (fun f -> match f with
      | Lc p -> one [p]
      | Lin (a, b) -> one [mp_neg b; a]
      | Quad q -> one (mp_coeffs c.y q)) fs in
  let zero = List.exists (fun (_, _, z) -> z) parts in
  let d = if zero then 0 else List.fold_left (fun acc (d, _, _) -> acc + d) 0 parts in
  let slc = if zero then 0 else List.fold_left (fun acc (_, s, _) -> acc * s) 1 parts in
  let const = List.fold_left (fun acc f ->
      if acc = 0 then 0 else
        acc * (match f with
            | Lc p -> sign_poly c None p
            | Lin (_, b) -> - (sign_poly c None b)
            | Quad q -> (match mp_coeffs c.y q with c0 :: _ -> sign_poly c None c0 | [] -> 0))) 1 fs in
  { degree = d; sgn_lc = slc; sgn_const = const; ident_zero = zero }

let specialise_case (c : case) (st : factor list option) : spec =
  match st with
  | Some fs when List.length (alg_params c) >= 2 -> specialise_struct c fs
  | Some fs ->
    let a = specialise c and b = specialise_struct c fs in
    if a <> b then raise (Model_error "specialisation by coefficients and by factors disagree");
    a
  | None -> specialise c

(* exact sign of the polynomial at y := q (rational) *)
let sign_at_rat (c : case) (st : factor list option) (q : rat) : int =
  match st with
  | Some fs when List.length (alg_params c) >= 2 ->
    let yv = mp_var_pow c.y (n_of_int 1) in
    List.fold_left (fun acc f ->
        if acc = 0 then 0 else
          acc * (match f with
              | Lc p -> sign_poly c (Some q) p
              | Lin (a, b) -> sign_poly c (Some q) (mp_sub (mp_mul a yv) b)
              | Quad p -> sign_poly c (Some q) p)) 1 fs
  | _ -> sign_poly c (Some q) c.poly

(* ---------------------------------------------------------------- reference roots, method S: factor structure *)
let roots_by_structure (c : case) (st : factor list option) : rnum list option =
  match st with
  | None -> None
  | Some factors ->
    let zero = ref false and roots = ref [] and unsupported = ref false in
    (* a*y - b *)
    let linear (a : mpoly) (b : mpoly) =
      if sign_poly c None a = 0 then (if sign_poly c None b = 0 then zero := true)
      else begin
        (* substitute the rational values in a*y - b as a whole: ONE positive multiplier for both coefficients *)
        let yv = mp_var_pow c.y (n_of_int 1) in
        let f = reduce_rationals c None (mp_sub (mp_mul a yv) b) in
        let cs = mp_coeffs c.y f in
        let c0 = (try List.nth cs 0 with _ -> []) and c1 = (try List.nth cs 1 with _ -> []) in
        match List.sort_uniq compare (vars_of c0 @ vars_of c1) with
        | [] | [_] as vs ->
          let (x, alpha) = (match vs with [x] -> (n_of_int x, List.assoc x c.assign) | _ -> (n_of_int 0, RQ q0)) in
          let num = mp_to_upoly x (mp_neg c0) and den = mp_to_upoly x c1 in
          roots := value_alg num den alpha :: !roots
        | _ ->
          (* c0, c1 contain no rationally assigned variable any more, so value_poly adds no further multiplier *)
          let av = value_poly c c1 and bv = value_poly c (mp_neg c0) in
          roots := simplify (some_or_fuel (rn_div fuel bv av)) :: !roots
      end in
    List.iter (fun f -> match f with
        | Lc p -> if sign_poly c None p = 0 then zero := true
        | Lin (a, b) -> linear a b
        | Quad q ->
          let cs = mp_coeffs c.y q in
          let nth k = (try List.nth cs k with _ -> []) in
          let q0' = nth 0 and q1 = nth 1 and q2 = nth 2 in
          if List.length cs > 3 then unsupported := true
          else if sign_poly c None q2 = 0 then linear q1 (mp_neg q0')
          else if mp_is_zero q1 || sign_poly c None q1 = 0 then begin
            (* q2 y^2 + q0: the discriminant has the sign of -q2*q0; with real roots +-r the generator supplies r > 0
               as a value token (sqrt=...), accepted only after r^2 = -q0/q2 has been checked exactly *)
            let s = - (sign_poly c None q2) * (sign_poly c None q0') in
            if s < 0 then ()
            else if s = 0 then roots := RQ q0 :: !roots
            else begin
              let key = "sqrt=" in
              let toks = List.filter (fun t -> String.length t > 5 && String.sub t 0 5 = key) c.extra in
              match toks with
              | [t] ->
                let r = simplify (rnum_of_token (String.sub t 5 (String.length t - 5))) in
                let fq = mp_coeffs c.y (reduce_rationals c None q) in          (* one common positive multiplier *)
                let f0 = (try List.nth fq 0 with _ -> []) and f2 = (try List.nth fq 2 with _ -> []) in
                let target = simplify (some_or_fuel (rn_div fuel (rn_neg (value_poly c f0)) (value_poly c f2))) in
                let r2 = simplify (some_or_fuel (rn_mul fuel r r)) in
                if sgn_of_z (rn_sgn r) > 0 && eq_rn r2 target then roots := r :: rn_neg r :: !roots
                else raise (Model_error "sqrt= token is not the positive square root of -q0/q2")
              | _ -> unsupported := true
            end
          end
          else begin
            let disc = mp_sub (mp_mul q1 q1) (mp_scale (zi 4) (mp_mul q2 q0')) in
            let s = (try sign_poly c None disc with Skip _ -> 2) in
            if s < 0 then ()
            else if s = 0 then linear (mp_scale (zi 2) q2) (mp_neg q1)
            else unsupported := true
          end) factors;
    if !unsupported then None
    else if !zero then Some []
    else Some (sort_dedup !roots)

(* ---------------------------------------------------------------- reference roots, method E: eliminate *)
(* polynomial in x and y as a list (powers of `outer`, low first) of dense polynomials in `inner` *)
let bivariate (outer : n) (inner : n) (p : mpoly) : poly list =
  List.map (fun cx -> pnorm (mp_to_upoly inner cx)) (mp_coeffs outer p)

let roots_by_elimination (c : case) (sp : spec) : rnum list option =
  let algs = alg_params c in
  if List.length algs > 1 then None else
  if sp.ident_zero || sp.degree = 0 then Some [] else begin
    let p = reduce_rationals c None c.poly in
    if List.exists (fun v -> v <> ni c.y && not (List.mem_assoc v algs)) (vars_of p)
    then raise (Model_error "unassigned variable below y");
    match algs with
    | [] -> Some (some_or_fuel (rn_roots fuel (pnorm (mp_to_upoly c.y p))))
    | [(xi, alpha)] ->
      let x = n_of_int xi in
      (* drop the coefficients of y^k, k > degree under the assignment *)
      let p = List.filter (fun (m, _) -> ni (mono_deg c.y m) <= sp.degree) p in
      (* the specialisation of p (degree deg under the assignment) when it is square-free *)
      let elim (p : mpoly) (deg : int) : rnum list option =
      if not (List.mem xi (vars_of p)) then Some (some_or_fuel (rn_roots fuel (pnorm (mp_to_upoly c.y p)))) else begin
        let lcx = pnorm (mp_to_upoly x (mp_coeff c.y (n_of_int deg) p)) in
        let m0 = (match alpha with RA (m, _, _) -> psqfree m | RQ _ -> assert false) in
        let m = if deg_of lcx < 1 then m0 else strip_common m0 lcx in
        (* square-free test: D(x) = Res_y(A, dA/dy), D(alpha) <> 0 *)
        let squarefree =
          if deg = 1 then true else begin
            let a = bp_trim (bivariate c.y x p) and b = bp_trim (bivariate c.y x (mp_deriv c.y p)) in
            let d = bires a b in
            sign_alg d alpha <> 0
          end in
        if not squarefree then None else begin
          let e = bires (bp_trim (bivariate x c.y p)) (bp_of_upoly m) in
          if pis_zero e then raise (Model_error "eliminant vanished although the leading coefficient was made coprime");
          let cands = some_or_fuel (rn_roots fuel e) in
          let sgn_at q = sign_alg (mp_to_upoly x (subst_rat c.y q p)) alpha in
          let esf = psqfree e in
          (* shrink the enclosure of a candidate until it contains no other root of the eliminant *)
          let rec alone k r =
            if k = 0 then raise Fuel else
            match r with
            | RQ _ -> r
            | RA (_, lo, hi) ->
              if sgn_of_z (psgn_q esf lo) <> 0 && sgn_of_z (psgn_q esf hi) <> 0 && int_of_nat (count_open esf lo hi) = 1 then r
              else alone (k - 1) (rn_refine r) in
          Some (List.filter (fun r ->
              match alone 400 r with
              | RQ q -> sgn_at q = 0
              | RA (_, lo, hi) ->
                let sl = sgn_at lo and sh = sgn_at hi in
                if sl = 0 || sh = 0 then raise (Model_error "specialisation vanishes at an end of a candidate's isolating interval");
                sl <> sh) cands)
        end
      end in
      (* the coefficients of y^0 .. y^(j-1) vanish at alpha (exact signs): A(alpha, y) = y^j B(alpha, y) with
         B = sum_{k >= j} c_k y^(k-j), B(alpha, 0) <> 0; the roots are 0 and the roots of B(alpha, .), none when B is
         constant in y (the specialisation collapsed to the single term c_deg(alpha) y^deg) *)
      let cs = mp_coeffs c.y p in
      let rec low j = function
        | co :: r when j < sp.degree && sign_poly c None co = 0 -> low (j + 1) r
        | _ -> j in
      let j = low 0 cs in
      if j = 0 then elim p sp.degree
      else begin
        let b = List.fold_left (fun acc (k, co) ->
            if k < j then acc else mp_add acc (mp_mul co (mp_var_pow c.y (n_of_int (k - j)))))
            [] (List.mapi (fun k co -> (k, co)) cs) in
        if sp.degree - j = 0 then Some [RQ q0]
        else match elim b (sp.degree - j) with
          | Some rs -> Some (sort_dedup (RQ q0 :: rs))
          | None -> None
      end
    | _ -> None
  end

let same_roots (a : rnum list) (b : rnum list) =
  List.length a = List.length b && List.for_all2 eq_rn a b

(* the reference real roots of the specialisation (none when it is constant or vanishes identically) *)
let reference_roots (c : case) (sp : spec) (st : factor list option) : rnum list =
  let e = roots_by_elimination c sp and s = roots_by_structure c st in
  match e, s with
  | Some a, Some b ->
    if same_roots a b then a else raise (Model_error "reference methods disagree")
  | Some a, None -> a
  | None, Some b -> b
  | None, None -> raise (Skip "no reference method applies")

(* ---------------------------------------------------------------- reading the implementation's output *)
let value_tok (t : string) : rnum =
  match value_of_token t with
  | (_, XFin x) -> simplify x
  | _ -> raise (Bad_value ("finite value expected: " ^ t))

(* "TAG n v1 .. vn" at the head of the token list *)
let read_values (tag : string) (toks : string list) : rnum list * string list =
  match toks with
  | t :: n :: rest when t = tag ->
    let n = int_of_string n in
    let rec take k l acc = if k = 0 then (List.rev acc, l) else match l with
        | v :: r -> take (k - 1) r (value_tok v :: acc)
        | [] -> failwith "short value list" in
    take n rest []
  | _ -> failwith ("expected " ^ tag)

(* C11 checks on a claimed root list; returns None when fine.  "Each claimed value is a root and none is missing"
   is decided by exact comparison with the reference roots, which are roots by construction. *)
let check_roots (refr : rnum list) (claimed : rnum list) : string option =
  let rec incr = function a :: (b :: _ as r) -> cmp_rn a b < 0 && incr r | _ -> true in
  if not (incr claimed) then Some "roots not strictly increasing"
  else if List.exists (fun r -> not (List.exists (eq_rn r) refr)) claimed then Some "a claimed root is not a root of the specialisation"
  else if List.length claimed <> List.length refr then
    Some (Printf.sprintf "%d roots claimed, the specialisation has %d distinct real roots" (List.length claimed) (List.length refr))
  else if not (same_roots claimed refr) then Some "claimed roots differ from the reference roots"
  else None

(* rank of a value among the reference roots: Some i when it IS root i *)
let rank_of (refr : rnum list) (v : rnum) : int option =
  let rec go i = function [] -> None | r :: t -> if eq_rn r v then Some i else go (i + 1) t in
  go 0 refr

(* exact sign of the specialised polynomial at a probe value printed by the implementation *)
let sign_at_probe (c : case) (st : factor list option) (refr : rnum list) (v : rnum) : int =
  match rank_of refr v with
  | Some _ -> 0
  | None ->
    (match v with
     | RQ q -> sign_at_rat c st q
     | RA _ -> raise (Model_error "irrational probe that is not a root"))

(* intervals printed by C -> intervals over ranks; end points must be roots or infinities *)
let ext_of_tok (refr : rnum list) (t : string) : z ext =
  if t = "-inf" then NegInf else if t = "+inf" then PosInf else
    match rank_of refr (value_tok t) with
    | Some i -> Finite (zi i)
    | None -> raise (Bad_value ("end point is not a root of the specialisation: " ^ t))

let rec read_intervals (refr : rnum list) (k : int) (toks : string list) : z interval list * string list =
  if k = 0 then ([], toks) else
    match toks with
    | "P" :: a :: rest ->
      let (l, r) = read_intervals refr (k - 1) rest in (IPoint (ext_of_tok refr a) :: l, r)
    | "I" :: a :: ao :: b :: bo :: rest ->
      let (l, r) = read_intervals refr (k - 1) rest in
      (IIv (ext_of_tok refr a, ao = "1", ext_of_tok refr b, bo = "1") :: l, r)
    | _ -> failwith "interval expected"

let string_of_ext = function NegInf -> "-inf" | PosInf -> "+inf" | Finite z -> "r" ^ string_of_z z
let string_of_iv = function
  | IPoint a -> "[" ^ string_of_ext a ^ "]"
  | IIv (a, ao, b, bo) -> (if ao then "(" else "[") ^ string_of_ext a ^ "," ^ string_of_ext b ^ (if bo then ")" else "]")
let string_of_set s = "{" ^ String.concat " " (List.map string_of_iv s) ^ "}"

let all_sc = [SC_LT; SC_LE; SC_EQ; SC_NE; SC_GT; SC_GE]
let sc_of_int i = List.nth all_sc i

(* truth of membership of an arbitrary real in a set over ranks: compare with the roots *)
let ext_cmp_val (refr : rnum list) (a : z ext) (v : rnum) : int =
  match a with NegInf -> -1 | PosInf -> 1 | Finite i -> cmp_rn (List.nth refr (int_of_z i)) v
let iv_contains_val refr (i : z interval) (v : rnum) : bool =
  match i with
  | IPoint a -> ext_cmp_val refr a v = 0
  | IIv (a, ao, b, bo) ->
    let ca = ext_cmp_val refr a v and cb = ext_cmp_val refr b v in
    (ca < 0 || (ca = 0 && not ao)) && (cb > 0 || (cb = 0 && not bo))
let set_contains_val refr s v = List.exists (fun i -> iv_contains_val refr i v) s

(* ---------------------------------------------------------------- the VERIFIED acceptance test (coq/RootCheck.v, extracted)
   Accept is proved to imply exactness (Properties_C11.v); Reject / NotApplicable never decide alone: the drivers then
   use the unverified reference above, and a case where the checker rejects what the reference accepts is reported
   as an inconsistency of the model side. *)
let check_fuel = nat_of_int 400
let asg_of (c : case) : (n * rnum) list = List.map (fun (v, r) -> (n_of_int v, r)) c.assign
let verified_roots (c : case) (rs : rnum list) : verdict =
  accept_roots check_fuel (asg_of c) c.y c.poly rs

(* counters reported through the evidence (the mdriver lives for the whole run) *)
let n_verified = ref 0 and n_reference_only = ref 0

let guard (f : unit -> string) : string =
  try f () with
  | Fuel -> "FUEL"
  | Skip w -> "SKIP " ^ w
  | Model_error w -> "MODEL-ERROR " ^ w
  | Bad_value w -> "CHECK fail: invalid value printed by the implementation: " ^ w
