(* C07 model driver.  A case is a pool of numbers and a sequence of steps (see harness/c07.c).  The implementation's
   output is CHECKED, in two layers:
   (1) by DENOTATION against the reference real algebraic numbers of RefAlg.v: every struct the library prints is
       validated (Io.value_of_token: exactly one root in the interval, sign caches; AlgNum.an_wf: normal form, no
       integer strictly inside) and must denote the number the exact reference arithmetic gives (rn_cmp = Some 0);
       scalar observations (signs, comparisons, floor, ceiling, is_integer) must equal the exact ones;
   (2) EXACTLY against the faithful model AlgNum.v of the library's own algorithms wherever the result is a function of
       the printed operand structs (refine, sgn / cmp_* with the refined operand, cmp, neg, inv, construct, floor,
       ceiling, is_integer, is_rational, to_rational, the dyadic behind to_double, midpoint).
   The verdict of layer (1) is the VERIFIED acceptance test Model.accept_op (coq/AlgNumCheck.v, extracted): for every
   result / observation / re-read operand the printed structs and scalars are handed to accept_op, and `CHECK ok` is only
   answered when it said `true` every time.  AlgNumCheckProofs.v (C07_accept_<op>_sound, C07_accept_op_sound) proves
   that whatever accept_op accepts is the mathematically right answer in every real closed field.  The older hand-written
   comparison with the memoised reference arithmetic rv_* still runs first (it gives the detailed messages and tells a
   fuel-out from a wrong answer); both have to accept.
   Answer: CHECK ok | CHECK fail <step>: <why> | FUEL. *)
open Model
open Io

exception Fail of string
exception Fuel
let fail fmt = Printf.ksprintf (fun s -> raise (Fail s)) fmt

let fuel = nat_of_int 4000
let zero_q : rat = (Z0, z_of_int 1)

(* ---- text <-> model structs *)
let dy_of_string (s : string) : dyadic =
  let k = String.index s '/' in
  { da = z_of_string (String.sub s 0 k); dn = n_of_string (String.sub s (k + 1) (String.length s - k - 1)) }
let string_of_dy (d : dyadic) = string_of_z d.da ^ "/" ^ string_of_n d.dn
let rat_of_string (s : string) : rat =
  let k = String.index s '/' in
  match q_canon (z_of_string (String.sub s 0 k), z_of_string (String.sub s (k + 1) (String.length s - k - 1))) with
  | Some q -> q | None -> fail "bad rational %s" s
let string_of_q (q : rat) = string_of_z (fst q) ^ "/" ^ string_of_z (snd q)

let anum_of_token (tok : string) : anum =
  match String.split_on_char ':' tok with
  | ["p"; s] -> let d = dy_of_string s in { an_f = None; an_a = d; an_b = d; an_sa = Z0; an_sb = Z0 }
  | ["a"; cs; lo; hi; sa; sb] ->
    { an_f = Some (upoly_of_string cs); an_a = dy_of_string lo; an_b = dy_of_string hi;
      an_sa = z_of_string sa; an_sb = z_of_string sb }
  | _ -> fail "unparsable struct %s" tok
let token_of_anum (x : anum) : string =
  match x.an_f with
  | None -> "p:" ^ string_of_dy x.an_a
  | Some p -> "a:" ^ String.concat "," (List.map string_of_z p) ^ ":" ^ string_of_dy x.an_a ^ ":" ^ string_of_dy x.an_b ^
              ":" ^ string_of_z x.an_sa ^ ":" ^ string_of_z x.an_sb

(* memoised Sturm chains (the argument `chain` of the rv_* reference functions is UPoly.sturm_chain) *)
let chain_tbl : (string, z list list) Hashtbl.t = Hashtbl.create 1024
let chain (p : z list) : z list list =
  let k = String.concat "," (List.map string_of_z p) in
  match Hashtbl.find_opt chain_tbl k with
  | Some c -> c
  | None ->
    let c = sturm_chain p in
    if Hashtbl.length chain_tbl > 4000 then Hashtbl.reset chain_tbl;
    Hashtbl.add chain_tbl k c; c

(* validated struct -> reference number; cached by text (pure function of the text) *)
let cache : (string, rnum) Hashtbl.t = Hashtbl.create 1024
let check_struct (tok : string) : rnum =
  match Hashtbl.find_opt cache tok with
  | Some r -> r
  | None ->
    let x = anum_of_token tok in
    if not (an_wf x) then fail "struct %s violates the representation invariant (normal form / sign caches / primitive / no integer strictly inside)" tok;
    let r = rn_of_an x in
    if not (rv_valid chain r) then fail "struct %s: the interval does not contain exactly one root of the polynomial" tok;
    if Hashtbl.length cache > 20000 then Hashtbl.reset cache;
    Hashtbl.add cache tok r; r

let some = function Some x -> x | None -> raise Fuel
let same what (c : rnum) (r : rnum) =
  if not (rv_eqb chain c r) then
    fail "%s: implementation gives %s, exact value is %s" what (string_of_rnum c) (string_of_rnum r)
let sgi x = sgn_of_z x

(* ---- the verified acceptance test.  accept_op is a pure function of (operation, operand structs, answer); histories
   repeat calls (an operand struct re-read after a call, cmp in both orders twice), so its verdicts are memoised by the
   marshalled triple. *)
let acc_tbl : (string, bool) Hashtbl.t = Hashtbl.create 1024
let accepted (op : c07_op) (args : rnum list) (res : c07_result) : bool =
  let k = Marshal.to_string (op, args, res) [Marshal.No_sharing] in
  match Hashtbl.find_opt acc_tbl k with
  | Some b -> b
  | None ->
    let b = accept_op fuel op args res in
    if Hashtbl.length acc_tbl > 20000 then Hashtbl.reset acc_tbl;
    Hashtbl.add acc_tbl k b; b
let vtiming = (try Sys.getenv "C07_TIMING" = "1" with Not_found -> false)
let verified what op args res =
  let t0 = if vtiming then Sys.time () else 0.0 in
  let ok = accepted op args res in
  if vtiming && Sys.time () -. t0 > 0.2 then prerr_endline (Printf.sprintf "  accept_op %.2fs %s" (Sys.time () -. t0) what);
  if not ok then
    fail "%s: the verified checker (AlgNumCheck.accept_op) rejects the implementation's answer" what
(* a printed struct against the reference result of the memoised arithmetic rv_*: hand-written comparison only (the
   verified verdict on a result is accept_op with the operation itself) *)
let same_ref = same
(* a printed struct against the struct the pool holds for the slot (operand re-read before / after a call, copy, final
   dump, constructed operand against the generator's token): hand-written comparison, then the verified one *)
let same what (c : rnum) (r : rnum) = same_ref what c r; verified what KSame [r] (VNum c)
let vint i = VInt (z_of_int i)
let gcdf = an_ref_gcd   (* the instance for which C07_cmp_full is proved *)

(* exact-model comparison of struct texts *)
let exact what (model : anum) (ctok : string) =
  let m = token_of_anum model in
  if m <> ctok then fail "%s: model of the algorithm gives %s, implementation %s" what m ctok

(* |x - q| <= eps, decided exactly *)
let within (x : rnum) (q : rat) (eps : rat) : bool =
  sgi (rn_cmp_q x (q_sub q eps)) >= 0 && sgi (rn_cmp_q x (q_add q eps)) <= 0

(* SEMANTIC accuracy of the approximations, independent of the model of the algorithm (decided exactly with the
   reference: the number is compared with the two rationals answer -/+ bound):
     |to_rational(x) - v| <= 2^-100        |to_double(x) - v| <= 2^-99 + 2^-51 * |to_double(x)|     *)
let two_m k : rat = q_div_2exp (z_of_int 1, z_of_int 1) (n_of_int k)
let q_abs (q : rat) : rat = q_max q (q_neg q)

(* mpq_get_d of the dyadic a/2^n: truncation toward zero to a 53-bit mantissa (GMP documentation), as an exact rational *)
let double_of_dyadic_trunc (d : dyadic) : ZA.t * int =
  let a = zarith_of_z d.da and n = int_of_n d.dn in
  let bits = ZA.numbits a in
  if bits <= 53 then (a, -n)
  else
    let sh = bits - 53 in
    let m = ZA.shift_right_trunc a sh in   (* toward zero for both signs *)
    (m, sh - n)
let q_of_mant_exp (m : ZA.t) (e : int) : rat =
  let m = z_of_zarith m in
  if e >= 0 then (match q_canon (Z.mul m (pow2 (n_of_int e)), z_of_int 1) with Some q -> q | None -> zero_q)
  else (match q_canon (m, pow2 (n_of_int (-e))) with Some q -> q | None -> zero_q)

let split_on s ch = String.split_on_char ch s

let run_case (toks : string list) (cout : string list) : string =
  let step_name = ref "init" in
  try
    (match toks with "seq" :: _ -> () | _ -> raise (Fail "UNKNOWN-OP"));
    (* case: seq T0 .. | steps *)
    let rec cut acc = function [] -> (List.rev acc, []) | "|" :: r -> (List.rev acc, r) | t :: r -> cut (t :: acc) r in
    let (inits, steps) = cut [] (List.tl toks) in
    if cout = ["badtoken"] then begin
      (* the harness could not build an operand: only legitimate for an r: token whose root does not exist *)
      let bad = List.exists (fun t -> try ignore (rnum_of_token t); false with Bad_value _ -> true) inits in
      if bad then "SKIP" else "CHECK fail init: implementation rejected a valid operand token"
    end else begin
    let (cinit, rest) = cut [] cout in
    let (csteps, cdump) = cut [] rest in
    if List.length cinit <> List.length inits then fail "initial pool: %d structs for %d tokens" (List.length cinit) (List.length inits);
    if List.length csteps <> List.length steps then fail "%d step outputs for %d steps" (List.length csteps) (List.length steps);
    let pool : rnum option array = Array.make 64 None in
    let get i = match pool.(i) with Some x -> x | None -> fail "slot %d unused" i in
    (* ---- initial pool: constructors *)
    List.iteri (fun k (t, c) ->
      step_name := Printf.sprintf "init %d (%s)" k t;
      let r = (try rnum_of_token t with Bad_value m -> fail "generator token: %s" m) in
      let cs = check_struct c in
      same "constructed operand" cs r;
      (match split_on t ':' with
       | ["a"; pcs; lo; hi] ->
         (match an_construct fuel (upoly_of_string pcs) (dy_of_string lo) (dy_of_string hi) with
          | Some m -> exact "lp_algebraic_number_construct" m c | None -> raise Fuel)
       | ["q"; s] ->
         (match an_construct_from_rational fuel (rat_of_string s) with
          | Some m -> exact "construct_from_rational" m c | None -> raise Fuel)
       | ["z"; s] -> exact "construct_from_integer" (an_construct_from_integer (z_of_string s)) c
       | ["d"; s] -> exact "construct_from_dyadic_rational" (an_point (dy_of_string s)) c
       | _ -> ());
      pool.(k) <- Some cs) (List.combine inits cinit);
    (* ---- steps *)
    List.iteri (fun n (st, ct) ->
      step_name := Printf.sprintf "step %d (%s)" n st;
      let f = Array.of_list (split_on st ':') in
      let cf = Array.of_list (split_on ct ';') in
      let op = f.(0) in
      let ai k = int_of_string f.(k) in
      (* the library's current struct of slot i must still denote the slot's number; the pool then follows the
         library's representation (collapsed points, reduced polynomials), so that both sides work on the same degrees *)
      let sync what tok i = let c = check_struct tok in same what c (get i); pool.(i) <- Some c in
      let operand_is what tok i = sync (what ^ ": operand struct before the call") tok i in
      if ct = "UNKNOWN-STEP" then fail "harness protocol: %s" ct;
      if ct = "badslot" then begin
        (* the harness refused the step because an operand slot was never filled (its producer was skipped / undefined):
           legitimate iff the model's pool agrees *)
        let ops = (match op with
          | "add" | "sub" | "mul" | "div" -> [ai 2; ai 3] | "neg" | "inv" | "pow" | "root" | "copy" | "point" -> [ai 2]
          | "cmp" -> [ai 1; ai 2] | _ -> [ai 1]) in
        if List.for_all (fun i -> pool.(i) <> None) ops && not ((op = "copy" || op = "point") && ai 1 = ai 2) then fail "harness refused a step on filled slots"
      end else
      match op with
      | "add" | "sub" | "mul" | "div" ->
        let k = ai 1 and x = get (ai 2) and y = get (ai 3) in
        if ct = "skip" then ()
        else if ct = "undef" then begin
          if not (op = "div" && sgi (rn_sgn y) = 0) then fail "implementation reports an undefined operation but the divisor is not zero";
          verified "div (undefined)" KDiv [x; y] VUndef
        end else begin
          if op = "div" && sgi (rn_sgn y) = 0 then fail "division by an exact zero was not detected (sgn wrong)";
          let r = some (match op with
            | "add" -> rv_add chain fuel x y | "sub" -> rv_sub chain fuel x y | "mul" -> rv_mul chain fuel x y | _ -> rv_div chain fuel x y) in
          let c = check_struct cf.(0) in
          same_ref op c r;
          verified op (match op with "add" -> KAdd | "sub" -> KSub | "mul" -> KMul | _ -> KDiv) [x; y] (VNum c);
          if ai 2 <> k then sync (op ^ ": first operand after") cf.(1) (ai 2);
          if ai 3 <> k then sync (op ^ ": second operand after") cf.(2) (ai 3);
          pool.(k) <- Some c
        end
      | "neg" ->
        let k = ai 1 and i = ai 2 in
        operand_is op cf.(0) i;
        let c = check_struct cf.(1) in
        same_ref op c (rv_neg (get i));
        verified op KNeg [get i] (VNum c);
        (match an_neg fuel (anum_of_token cf.(0)) with Some m -> exact "neg" m cf.(1) | None -> raise Fuel);
        pool.(k) <- Some c
      | "inv" ->
        let k = ai 1 and i = ai 2 in
        let x = get i in
        if ct = "undef" then begin
          if sgi (rn_sgn x) <> 0 then fail "implementation says the operand is zero, it is not";
          verified "inv (undefined)" KInv [x] VUndef
        end
        else begin
          if sgi (rn_sgn x) = 0 then fail "inverse of an exact zero was not detected (sgn wrong)";
          operand_is op cf.(0) i;
          let c = check_struct cf.(1) in
          same_ref op c (some (rv_inv fuel x));
          verified op KInv [get i] (VNum c);
          (match an_inv fuel (anum_of_token cf.(0)) with
           | Some (m, a') -> exact "inv" m cf.(1); if i <> k then exact "inv (operand after)" a' cf.(2)
           | None -> raise Fuel);
          if i <> k then sync "inv: operand after" cf.(2) i;
          pool.(k) <- Some c
        end
      | "pow" ->
        let k = ai 1 and x = get (ai 2) and e = ai 3 in
        if ct = "skip" then () else begin
          let c = check_struct cf.(0) in
          same_ref op c (some (rv_pow chain fuel x (nat_of_int e)));
          verified op (KPow (nat_of_int e)) [x] (VNum c);
          if ai 2 <> k then sync "pow: operand after" cf.(1) (ai 2);
          pool.(k) <- Some c
        end
      | "root" ->
        let k = ai 1 and x = get (ai 2) and e = ai 3 in
        if ct = "skip" then ()
        else if ct = "undef" then begin
          if not (e = 0 || sgi (rn_sgn x) < 0) then fail "implementation says the operand is negative, it is not";
          verified "root (undefined)" (KRoot (nat_of_int e)) [x] VUndef
        end
        else begin
          if sgi (rn_sgn x) < 0 then fail "root of a negative number was not detected (sgn wrong)";
          let c = check_struct cf.(0) in
          if sgi (rn_sgn c) < 0 then fail "positive_root returned a negative number %s" (string_of_rnum c);
          (let p = some (rv_pow chain fuel c (nat_of_int e)) in
           if not (rv_eqb chain p x) then fail "root: (result)^n = %s, operand %s" (string_of_rnum p) (string_of_rnum x));
          verified op (KRoot (nat_of_int e)) [x] (VNum c);
          if ai 2 <> k then sync "root: operand after" cf.(1) (ai 2);
          pool.(k) <- Some c
        end
      | "copy" ->
        let k = ai 1 and i = ai 2 in
        let c = check_struct ct in same op c (get i); pool.(k) <- Some c
      | "point" ->
        let k = ai 1 and i = ai 2 in
        operand_is op cf.(0) i;
        let a = anum_of_token cf.(0) in
        let d = (match f.(3) with
          | "l" -> a.an_a | "u" -> (if an_is_point a then a.an_a else a.an_b) | "m" -> an_dyadic_midpoint a
          | lit -> dy_of_string lit) in
        exact "point" (an_point d) cf.(1);
        pool.(k) <- Some (check_struct cf.(1))
      | "refine" ->
        let i = ai 1 in
        operand_is op cf.(0) i;
        sync "refine: refined operand" cf.(1) i;
        exact "refine" (an_refine (anum_of_token cf.(0))) cf.(1)
      | "sgn" ->
        let i = ai 1 in
        operand_is op cf.(0) i;
        let s = int_of_string cf.(1) in
        if s <> sgi (rn_sgn (get i)) then fail "sgn = %d, exact sign %d" s (sgi (rn_sgn (get i)));
        verified op KSgn [get i] (vint s);
        sync "sgn: refined operand" cf.(2) i;
        (match an_sgn fuel (anum_of_token cf.(0)) with
         | Some (c, a') -> if sgi c <> s then fail "sgn: model of the algorithm gives %d" (sgi c); exact "sgn (operand after)" a' cf.(2)
         | None -> raise Fuel)
      | "cmp" ->
        let i = ai 1 and j = ai 2 in
        operand_is op cf.(0) i; operand_is op cf.(1) j;
        let s = int_of_string cf.(2) in
        let e = sgi (some (rv_cmp chain fuel (get i) (get j))) in
        if s <> e then fail "cmp = %d, exact comparison %d" s e;
        verified op KCmp [get i; get j] (vint s);
        sync "cmp: first operand after" cf.(3) i;
        sync "cmp: second operand after" cf.(4) j;
        if i <> j then
          (match an_cmp fuel gcdf (anum_of_token cf.(0)) (anum_of_token cf.(1)) with
           | Some ((c, a'), b') ->
             if sgi c <> s then fail "cmp: model of the algorithm gives %d" (sgi c);
             exact "cmp (first operand after)" a' cf.(3); exact "cmp (second operand after)" b' cf.(4)
           | None -> raise Fuel)
      | "cmpz" | "cmpd" | "cmpq" ->
        let i = ai 1 in
        operand_is op cf.(0) i;
        let s = int_of_string cf.(2) in
        let a = anum_of_token cf.(0) in
        let (q, mres, vop) = (match op with
          | "cmpz" -> let z = z_of_string cf.(1) in ((z, z_of_int 1), an_cmp_integer fuel a z, KCmpZ z)
          | "cmpd" -> let d = dy_of_string cf.(1) in (q_from_dyadic d, an_cmp_dyadic fuel a d, KCmpD d)
          | _ -> let q = rat_of_string cf.(1) in (q, an_cmp_rational fuel a q, KCmpQ q)) in
        let e = sgi (rn_cmp_q (get i) q) in
        if s <> e then fail "%s with %s = %d, exact comparison %d" op cf.(1) s e;
        verified op vop [get i] (vint s);
        sync (op ^ ": refined operand") cf.(3) i;
        (match mres with
         | Some (c, a') -> if sgi c <> s then fail "%s: model of the algorithm gives %d" op (sgi c); exact (op ^ " (operand after)") a' cf.(3)
         | None -> raise Fuel)
      | "floor" | "ceil" ->
        let i = ai 1 in
        operand_is op cf.(0) i;
        let z = z_of_string cf.(1) in
        let e = some (if op = "floor" then rn_floor fuel (get i) else rn_ceiling fuel (get i)) in
        if z <> e then fail "%s = %s, exact %s" op cf.(1) (string_of_z e);
        verified op (if op = "floor" then KFloor else KCeil) [get i] (VInt z);
        let a = anum_of_token cf.(0) in
        if (if op = "floor" then an_floor a else an_ceiling a) <> z then fail "%s: model of the algorithm differs" op
      | "isint" ->
        let i = ai 1 in
        operand_is op cf.(0) i;
        let b = (cf.(1) = "1") in
        let e = some (rn_is_integer fuel (get i)) in
        if b <> e then fail "is_integer = %b, exact %b" b e;
        verified op KIsInt [get i] (VBool b);
        if an_is_integer (anum_of_token cf.(0)) <> b then fail "is_integer: model of the algorithm differs"
      | "israt" ->
        let i = ai 1 in
        operand_is op cf.(0) i;
        let b = (cf.(1) = "1") in
        if b && not (some (rn_is_rational fuel (get i))) then fail "is_rational answered true for an irrational number";
        verified op KIsRat [get i] (VBool b);
        if an_is_rational (anum_of_token cf.(0)) <> b then fail "is_rational: model of the algorithm differs"
      | "torat" ->
        let i = ai 1 in
        operand_is op cf.(0) i;
        let a = anum_of_token cf.(0) in
        let q = rat_of_string cf.(1) in
        if cf.(1) <> string_of_q q then fail "to_rational result %s is not canonical" cf.(1);
        if an_is_rational a then begin
          if sgi (rn_cmp_q (get i) q) <> 0 then fail "to_rational of a number the library knows to be rational gives %s" cf.(1)
        end else if not (within (get i) q (two_m 100)) then fail "to_rational %s is further than 2^-100 from the number" cf.(1);
        verified op (if an_is_rational a then KToRat else KApprox (two_m 100)) [get i] (VRat q);
        if an_to_rational a <> q then fail "to_rational: model of the algorithm gives %s" (string_of_q (an_to_rational a))
      | "todbl" ->
        let i = ai 1 in
        operand_is op cf.(0) i;
        let a = anum_of_token cf.(0) in
        (match split_on cf.(1) ':' with
         | [m; e] ->
           let q = q_of_mant_exp (ZA.of_string m) (int_of_string e) in
           let eps = q_add (two_m 99) (q_div_2exp (q_abs q) (n_of_int 51)) in
           if not (within (get i) q eps) then fail "to_double %s*2^%s is further than 2^-99 + 2^-51 |d| from the number" m e;
           verified op (KApprox eps) [get i] (VRat q);
           let (mm, me) = double_of_dyadic_trunc (an_to_double_dyadic a) in
           if q_of_mant_exp mm me <> q then fail "to_double: model of the algorithm gives %s*2^%d" (ZA.to_string mm) me
         | _ -> fail "to_double returned %s" cf.(1))
      | "mid" ->
        let i = ai 1 in
        operand_is op cf.(0) i;
        let a = anum_of_token cf.(0) in
        let d = dy_of_string cf.(1) in
        if an_dyadic_midpoint a <> d then fail "dyadic midpoint: model gives %s" (string_of_dy (an_dyadic_midpoint a));
        if string_of_q (q_from_dyadic d) <> cf.(2) then fail "rational midpoint %s differs from the dyadic one" cf.(2);
        let w = q_sub (q_from_dyadic a.an_b) (q_from_dyadic a.an_a) in
        if not (within (get i) (q_from_dyadic d) w) then fail "midpoint is not within the interval width of the number";
        verified op (KApprox w) [get i] (VRat (q_from_dyadic d))
      | _ -> fail "unknown step"
    ) (List.combine steps csteps);
    (* ---- final dump: every slot still denotes its number (operands are refined in place through const pointers) *)
    let seen = Array.make 64 false in
    List.iter (fun t ->
      step_name := "final " ^ t;
      let k = String.index t '=' in
      let slot = int_of_string (String.sub t 0 k) in
      let s = String.sub t (k + 1) (String.length t - k - 1) in
      seen.(slot) <- true;
      same (Printf.sprintf "slot %d at the end" slot) (check_struct s) (get slot)) cdump;
    Array.iteri (fun k v -> if v <> None && not seen.(k) then fail "slot %d missing from the final dump" k) pool;
    "CHECK ok"
    end
  with
  | Fail "UNKNOWN-OP" -> "UNKNOWN-OP"
  | Fail m -> "CHECK fail " ^ !step_name ^ ": " ^ m
  | Fuel -> "FUEL"
  | Bad_value m -> "CHECK fail " ^ !step_name ^ ": " ^ m
  | Invalid_argument m -> "CHECK fail " ^ !step_name ^ ": malformed implementation output (" ^ m ^ ")"
  | Not_found -> "CHECK fail " ^ !step_name ^ ": malformed implementation output"
  | Failure m -> "CHECK fail " ^ !step_name ^ ": malformed implementation output (" ^ m ^ ")"

(* timing aid: C07_TIMING=1 prints slow cases on stderr *)
let timing = (try Sys.getenv "C07_TIMING" = "1" with Not_found -> false)
let run (toks : string list) (cout : string list) : string =
  if not timing then run_case toks cout
  else begin
    let t0 = Sys.time () in
    let r = run_case toks cout in
    let dt = Sys.time () -. t0 in
    if dt > 0.3 then prerr_endline (Printf.sprintf "%.2fs %s" dt (String.concat " " toks));
    r
  end
