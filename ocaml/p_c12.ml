(* C12 model driver: feasible sets of polynomial and root constraints, evaluators, complement.
   Per case: (1) the implementation's roots are checked against the reference roots (the premise of the sweep
   theorems), (2) the EXTRACTED sweeps of coq/FeasSweep.v are run on the ranks of the reference roots with the
   reference degree / leading sign / signs between roots and their result must equal, interval by interval, the
   set the implementation printed (end points identified by exact comparison), (3) the printed set must be in
   normal form, (4) membership / evaluator bits printed by the implementation for its probe values are compared
   with the truth obtained by exact evaluation of the polynomial at those values. *)
open Model
open Io
open Feas_common

let bits_of (s : string) : bool list = if s = "-" then [] else List.init (String.length s) (fun i -> s.[i] = '1')
let str_bits l = String.concat "" (List.map (fun b -> if b then "1" else "0") l)
let sc_name = function SC_LT -> "<0" | SC_LE -> "<=0" | SC_EQ -> "=0" | SC_NE -> "!=0" | SC_GT -> ">0" | SC_GE -> ">=0"

exception Fail of string

let common (c : case) (cout : string list) =
  let st = structure c in
  let sp = specialise_case c st in
  let refr = reference_roots c sp st in
  let (rc, rest) = read_values "R" cout in
  (match check_roots refr rc with Some w -> raise (Fail ("roots: " ^ w)) | None -> ());
  let (probes, rest) = read_values "P" rest in
  (* the verified acceptance test, evaluated once per case (coq/RootCheck.v, coq/FeasCheck.v, extracted) *)
  let arr = Array.of_list refr in
  let midq = List.init (max 0 (Array.length arr - 1)) (fun i -> rat_between arr.(i) arr.(i + 1)) in
  let oracle =
    (if verified_roots c rc = Accept && separates (List.map rn_norm rc) midq
     then sweep_oracle check_fuel (asg_of c) c.y c.poly midq else None) in
  (sp, st, refr, probes, rest, rc, oracle)

let ranks n = List.init n (fun i -> zi i)

let run_fs (c : case) (cout : string list) : string =
  let (sp, st, refr, probes, rest, rc, oracle) = common c cout in
  let n = List.length refr in
  let arr = Array.of_list refr in
  let mids = Array.init (max 0 (n - 1)) (fun i -> zi (sign_at_rat c st (rat_between arr.(i) arr.(i + 1)))) in
  let sign_mid (i : nat) : z = let k = int_of_nat i in if k < Array.length mids then mids.(k) else zi 0 in
  let truth = List.map (fun p -> sign_at_probe c st refr p) probes in
  let rest = ref rest in
  let sets = Hashtbl.create 16 in
  for sci = 0 to 5 do for negi = 0 to 1 do
    let sc = sc_of_int sci and neg = (negi = 1) in
    let what = Printf.sprintf "A %s%s" (sc_name sc) (if neg then " negated" else "") in
    (match !rest with
     | "S" :: a :: b :: k :: r when int_of_string a = sci && int_of_string b = negi ->
       let (ivs, r) = read_intervals refr (int_of_string k) r in
       (match r with
        | "C" :: bits :: r ->
          rest := r;
          Hashtbl.replace sets (sci, negi) ivs;
          let expected = z_constraint_feasible_set (ranks n) (nat_of_int sp.degree) (zi sp.sgn_const) (zi sp.sgn_lc) sign_mid sc neg in
          let ver = (match oracle with Some o -> Some (feasible_matches (nat_of_int n) o sc neg ivs) | None -> None) in
          (match ver with
           | Some true -> incr n_verified
           | Some false -> if expected = ivs then raise (Model_error "the verified checker rejects a feasible set the reference accepts")
           | None -> incr n_reference_only);
          if expected <> ivs then
            raise (Fail (Printf.sprintf "%s: feasible set %s, the sweep on the exact roots and signs gives %s" what (string_of_set ivs) (string_of_set expected)));
          if not (z_set_nf ivs) then raise (Fail (what ^ ": set not in normal form " ^ string_of_set ivs));
          if sp.degree > 0 &&
             int_of_nat (z_constraint_feasible_count (nat_of_int n) (nat_of_int sp.degree) (zi sp.sgn_lc) sign_mid sc neg) <> List.length ivs
          then raise (Fail (what ^ ": interval count"));
          let want = List.map (fun s -> (if neg then not else (fun b -> b)) (sc_consistent sc (zi s))) truth in
          if bits_of bits <> want then
            raise (Fail (Printf.sprintf "%s: lp_feasibility_set_contains at the probes = %s, truth by exact evaluation = %s" what bits (str_bits want)));
          let via_set = List.map (fun p -> set_contains_val refr ivs p) probes in
          if via_set <> want then raise (Fail (what ^ ": printed set does not contain exactly the satisfying probes"))
        | _ -> raise (Fail "malformed output (C)"))
     | _ -> raise (Fail "malformed output (S)"))
  done done;
  (* complement of the non-negated sets *)
  for sci = 0 to 5 do
    let sc = sc_of_int sci in
    (match !rest with
     | "N" :: a :: k :: r when int_of_string a = sci ->
       let (ivs, r) = read_intervals refr (int_of_string k) r in
       (match r with
        | "C" :: bits :: r ->
          rest := r;
          let feas = Hashtbl.find sets (sci, 0) in
          let expected = z_infeasible_regions feas in
          if expected <> ivs then
            raise (Fail (Printf.sprintf "infeasible regions of A %s: %s, model %s" (sc_name sc) (string_of_set ivs) (string_of_set expected)));
          if not (z_set_nf ivs) then raise (Fail "infeasible regions not in normal form");
          let want = List.map (fun s -> not (sc_consistent sc (zi s))) truth in
          if bits_of bits <> want then raise (Fail (Printf.sprintf "infeasible regions of A %s: membership %s, truth %s" (sc_name sc) bits (str_bits want)))
        | _ -> raise (Fail "malformed output (NC)"))
     | _ -> raise (Fail "malformed output (N)"))
  done;
  (* evaluator *)
  (match !rest with
   | "E" :: ev ->
     if List.length ev <> List.length probes then raise (Fail "malformed output (E)");
     List.iter2 (fun bits s ->
         let want = List.map (fun sc -> constraint_evaluate sc (zi s)) all_sc in
         if bits_of bits <> want then
           raise (Fail (Printf.sprintf "lp_polynomial_constraint_evaluate = %s, truth (sign %d) = %s" bits s (str_bits want)))) ev truth
   | _ -> raise (Fail "malformed output (E)"));
  (if oracle <> None then "CHECK ok verified" else "CHECK ok reference")

let run_rc (c : case) (cout : string list) : string =
  let (sp, st, refr, probes, rest, rc, oracle) = common c cout in
  let n = List.length refr in
  let kmax = (match rest with "K" :: k :: _ -> int_of_string k | _ -> raise (Fail "malformed output (K)")) in
  let rest = ref (List.tl (List.tl rest)) in
  let cmp_truth k = List.map (fun p -> if k < n then Some (cmp_rn p (List.nth refr k)) else None) probes in
  for k = 0 to kmax do
    let ct = cmp_truth k in
    for sci = 0 to 5 do for negi = 0 to 1 do
      let sc = sc_of_int sci and neg = (negi = 1) in
      let what = Printf.sprintf "y %s root %d%s" (sc_name sc) k (if neg then " negated" else "") in
      (match !rest with
       | "S" :: kk :: a :: b :: m :: r when int_of_string kk = k && int_of_string a = sci && int_of_string b = negi ->
         let (ivs, r) = read_intervals refr (int_of_string m) r in
         (match r with
          | "C" :: bits :: r ->
            rest := r;
            let expected = z_root_constraint_feasible_set (ranks n) (nat_of_int sp.degree) (nat_of_int k) sc neg in
            let ver = (match oracle with Some o -> Some (root_constraint_matches (nat_of_int n) o (nat_of_int k) sc neg ivs) | None -> None) in
            (match ver with
             | Some true -> incr n_verified
             | Some false -> if expected = ivs then raise (Model_error "the verified checker rejects a root-constraint set the reference accepts")
             | None -> incr n_reference_only);
            if expected <> ivs then
              raise (Fail (Printf.sprintf "%s: feasible set %s, model %s" what (string_of_set ivs) (string_of_set expected)));
            if not (z_set_nf ivs) then raise (Fail (what ^ ": set not in normal form"));
            let want = List.map (fun o ->
                let t = (match o with Some s -> sc_consistent sc (zi s) | None -> false) in
                if neg then not t else t) ct in
            if bits_of bits <> want then
              raise (Fail (Printf.sprintf "%s: membership at the probes %s, truth %s" what bits (str_bits want)))
          | _ -> raise (Fail "malformed output (C)"))
       | _ -> raise (Fail "malformed output (S)"))
    done done
  done;
  for k = 0 to kmax do
    let ct = cmp_truth k in
    (match !rest with
     | "E" :: kk :: r when int_of_string kk = k ->
       let rec take j l acc = if j = 0 then (List.rev acc, l) else match l with x :: t -> take (j - 1) t (x :: acc) | [] -> raise (Fail "malformed output (E)") in
       let (ev, r) = take (List.length probes) r [] in
       rest := r;
       List.iteri (fun j bits ->
           if String.contains bits '!' then raise (Fail "root constraint evaluator changed the assigned value of y");
           let o = List.nth ct j in
           let want = List.map (fun sc -> match o with Some s -> sc_consistent sc (zi s) | None -> false) all_sc in
           (* cross-check with the extracted evaluator on ranks when the probe is itself a root *)
           (match rank_of refr (List.nth probes j) with
            | Some i ->
              let m = List.map (fun sc -> z_root_constraint_evaluate (ranks n) (nat_of_int k) sc (zi i)) all_sc in
              if m <> want then raise (Model_error "extracted evaluator disagrees with the truth")
            | None -> ());
           let ok = List.for_all2 (fun ch w -> ch = '.' || (ch = '1') = w) (List.init (String.length bits) (String.get bits)) want in
           if String.length bits <> 6 || not ok then
             raise (Fail (Printf.sprintf "lp_polynomial_root_constraint_evaluate(k=%d) = %s, truth %s" k bits (str_bits want)))) ev
     | _ -> raise (Fail "malformed output (E)"))
  done;
  (if oracle <> None then "CHECK ok verified" else "CHECK ok reference")

let run (toks : string list) (cout : string list) : string =
  guard (fun () ->
    let c = parse_case toks in
    match cout with
    | ["NOT-MAIN"] -> "SKIP y is not the main variable"
    | ["BAD-VALUE"] -> "SKIP value token not constructible"
    | _ ->
      try
        (match c.op with
         | "fs" -> run_fs c cout
         | "rc" -> run_rc c cout
         | _ -> "UNKNOWN-OP")
      with Fail w -> "CHECK fail: " ^ w)
