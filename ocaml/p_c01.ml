(* C01 model driver.  For every case it runs
     (1) the REFERENCE semantics (Model.ref_step over MPoly, UPoly + ring_norm): this produces the line the
         C side must print, and
     (2) the FAITHFUL model of coefficient.c / upolynomial.c (Model.c_step and the u_ functions), whose observation must
         agree with (1) at every step and whose representation invariants (slack = 0, normalised, ordered)
         must hold; a disagreement is printed as MODEL-DISAGREE inside the line (so the case fails). *)
open Model
open Io

let fuel = nat_of_int 2000
let ring_of s : z option = if s = "0" then None else Some (z_of_string s)

let order_of (s : string) : n list =
  if s = "-" then [] else List.map n_of_string (String.split_on_char ',' s)

(* raw terms of a polynomial text: powers in the written order, zero exponents skipped (as the harness does) *)
let raw_term (s : string) : (n * nat) list * z =
  match String.split_on_char '*' s with
  | [] -> failwith "empty term"
  | c :: pows ->
    let pw p =
      let k = String.index p '^' in
      (n_of_string (String.sub p 1 (k - 1)), int_of_string (String.sub p (k + 1) (String.length p - k - 1))) in
    let ps = List.filter (fun (_, e) -> e <> 0) (List.map pw pows) in
    (List.map (fun (x, e) -> (x, nat_of_int e)) ps, z_of_string c)
let raw_terms (s : string) = if s = "0" then [] else List.map raw_term (String.split_on_char '+' s)

let str_top = function None -> "-1" | Some x -> string_of_n x
let str_obs ((p, d), t) = string_of_mpoly p ^ ":" ^ string_of_n d ^ ":" ^ str_top t

let count_nz l = List.length (List.filter (fun c -> c <> Z0) l)
(* u_print of the harness for a dense list (reduced, any trailing zeros) *)
let str_udense (l : z list) : string =
  match pnorm l with
  | [] -> "0:1:0"
  | q -> string_of_int (List.length q - 1) ^ ":" ^ string_of_int (count_nz q) ^ ":" ^ String.concat "," (List.map string_of_z q)
(* u_print of a sparse faithful-model object *)
let str_usparse (u : upoly) : string =
  string_of_int (int_of_nat (u_degree u)) ^ ":" ^ string_of_int (List.length u) ^ ":" ^
  String.concat "," (List.map string_of_z (u_unpack u))

let reduce_dense k l = List.map (ring_norm k) l

let zlist s = List.map z_of_string (String.split_on_char ',' s)

(* ------------------------------------------------------------------ multivariate *)
let run_mv (toks : string list) : string =
  match toks with
  | k :: perm :: n :: rest ->
    let k = ring_of k in
    let ord0 = order_of perm in
    let n = int_of_string n in
    let rec take i l = if i = 0 then ([], l) else match l with x :: t -> let (a, b) = take (i - 1) t in (x :: a, b) | [] -> failwith "pool" in
    let (texts, ops) = take n rest in
    let rstate = ref (ord0, List.map (fun s -> mp_reduce k (mpoly_of_string s)) texts) in
    let bad = ref "" in
    let cstate =
      ref (let l = List.map (fun s -> c_of_terms k (rk_of ord0) fuel (raw_terms s)) texts in
           if List.exists (fun x -> x = None) l then (bad := " MODEL-DISAGREE(faithful model: no result on the initial pool)"; None)
           else Some (ord0, List.map (function Some c -> c | None -> CNum Z0) l)) in
    let buf = Buffer.create 256 in
    let dump first =
      let (ord, pool) = !rstate in
      let rk = rk_of ord in
      List.iteri (fun i p -> if i > 0 || not first then Buffer.add_char buf ' '; Buffer.add_string buf (str_obs (ref_obs rk p))) pool;
      (match !cstate with
       | None -> ()
       | Some (cord, cpool) ->
         List.iteri (fun i c ->
           let p = List.nth pool i in
           let o1 = str_obs (ref_obs rk p) and o2 = str_obs (c_obs k c) in
           if o1 <> o2 && !bad = "" then bad := Printf.sprintf " MODEL-DISAGREE(object %d: reference %s, faithful model %s)" i o1 o2;
           if not (c_canonical k (rk_of cord) c) && !bad = "" then
             bad := Printf.sprintf " MODEL-DISAGREE(object %d: faithful model leaves canonical form: slack_ok=%b normal=%b)" i (c_slack_ok k c) (c_normal k (rk_of cord) c)) cpool);
      if !bad <> "" then (Buffer.add_string buf !bad; bad := ""; cstate := None) in
    dump true;
    let dest_of = function
      | OAdd (d, _, _) | OSub (d, _, _) | OMul (d, _, _) | OAddMul (d, _, _) | OSubMul (d, _, _) -> Some d
      | ONeg (d, _) | OAsg (d, _) | ODer (d, _) -> Some d
      | OMulC (d, _, _) | OPow (d, _, _) | OShl (d, _, _) -> Some d
      | OAddMon (d, _, _) -> Some d
      | OOrd _ -> None in
    (* the harness runs every writing operation first on fresh operands and prints that result after "~" *)
    let fresh_text d = let (_, pool) = !rstate in Buffer.add_string buf ("~" ^ string_of_mpoly (List.nth pool (int_of_nat d))) in
    let apply (o : op) =
      rstate := ref_step k !rstate o;
      (match dest_of o with Some d -> fresh_text d | None -> ());
      (match !cstate with
       | None -> ()
       | Some s -> (match c_step k fuel s o with
                    | Some s' -> cstate := Some s'
                    | None -> cstate := None; bad := " MODEL-DISAGREE(faithful model: no result)")) in
    let i_ s = nat_of_int (int_of_string s) in
    let reset_faithful d (p : mpoly) =
      match !cstate with
      | None -> ()
      | Some (cord, cpool) ->
        let terms = List.map (fun (m, c) -> (List.map (fun (x, e) -> (x, nat_of_int (int_of_n e))) m, c)) p in
        (match c_of_terms k (rk_of cord) fuel terms with
         | Some c -> cstate := Some (cord, set_nth d c cpool)
         | None -> cstate := None) in
    let rec go = function
      | [] -> ()
      | ("add" | "sub" | "mul" | "addmul" | "submul" as o) :: d :: a :: b :: t ->
        Buffer.add_string buf " ;";
        let (d, a, b) = (i_ d, i_ a, i_ b) in
        apply (match o with "add" -> OAdd (d, a, b) | "sub" -> OSub (d, a, b) | "mul" -> OMul (d, a, b)
                          | "addmul" -> OAddMul (d, a, b) | _ -> OSubMul (d, a, b));
        dump false; go t
      | ("neg" | "asg" | "der" as o) :: d :: a :: t ->
        Buffer.add_string buf " ;";
        let (d, a) = (i_ d, i_ a) in
        apply (match o with "neg" -> ONeg (d, a) | "asg" -> OAsg (d, a) | _ -> ODer (d, a));
        dump false; go t
      | "mulc" :: d :: a :: c :: t -> Buffer.add_string buf " ;"; apply (OMulC (i_ d, i_ a, z_of_string c)); dump false; go t
      | "pow" :: d :: a :: e :: t -> Buffer.add_string buf " ;"; apply (OPow (i_ d, i_ a, n_of_string e)); dump false; go t
      | "shl" :: d :: a :: e :: t ->
        Buffer.add_string buf " ;";
        let (ord, pool) = !rstate in
        if mp_top (rk_of ord) (List.nth pool (int_of_string a)) = None then Buffer.add_string buf "=skip"
        else apply (OShl (i_ d, i_ a, i_ e));
        dump false; go t
      | "addmon" :: d :: term :: t ->
        Buffer.add_string buf " ;";
        let (m, c) = raw_term term in
        apply (OAddMon (i_ d, m, c)); dump false; go t
      | "ord" :: perm :: t -> Buffer.add_string buf " ;"; apply (OOrd (order_of perm)); dump false; go t
      | "evi" :: a :: vals :: t ->
        Buffer.add_string buf " ;";
        let vs = Array.of_list (zlist vals) in
        let rho (x : n) = let i = int_of_n x in if i < Array.length vs then vs.(i) else Z0 in
        let (_, pool) = !rstate in
        let v = ring_norm k (mp_eval rho (List.nth pool (int_of_string a))) in
        Buffer.add_string buf ("=" ^ string_of_z v);
        (match !cstate with
         | Some (_, cpool) ->
           let v2 = c_eval k rho (List.nth cpool (int_of_string a)) in
           if v2 <> v then bad := Printf.sprintf " MODEL-DISAGREE(evaluate_integer: reference %s, faithful model %s)" (string_of_z v) (string_of_z v2)
         | None -> ());
        dump false; go t
      | "touni" :: a :: t ->
        Buffer.add_string buf " ;";
        let (ord, pool) = !rstate in
        let p = List.nth pool (int_of_string a) in
        let vars = mp_vars p in
        (if List.length vars > 1 then Buffer.add_string buf "=none"
         else begin
           let x = match vars with [x] -> x | _ -> N0 in
           let l = mp_to_upoly x p in
           Buffer.add_string buf ("=" ^ str_udense l ^ "=" ^ str_obs (ref_obs (rk_of ord) p))
         end);
        (match !cstate with
         | Some (cord, cpool) ->
           let c = List.nth cpool (int_of_string a) in
           (match c_to_univariate k c, List.length vars > 1 with
            | None, true -> ()
            | Some u, false ->
              let x = match c_top c with Some x -> x | None -> N0 in
              let s1 = str_usparse u and s0 = str_udense (mp_to_upoly (match vars with [x] -> x | _ -> N0) p) in
              if s1 <> s0 then bad := Printf.sprintf " MODEL-DISAGREE(to_univariate: reference %s, faithful model %s)" s0 s1
              else (match c_of_upoly k (rk_of cord) (c_ensure_capacity) fuel x u with
                    | Some back when str_obs (c_obs k back) = str_obs (ref_obs (rk_of ord) p) -> ()
                    | _ -> bad := " MODEL-DISAGREE(round trip through the univariate type in the faithful model)")
            | _, _ -> bad := " MODEL-DISAGREE(to_univariate: univariate-ness)")
         | None -> ());
        dump false; go t
      | "fromuni" :: d :: x :: coeffs :: t ->
        Buffer.add_string buf " ;";
        let d = int_of_string d and x = n_of_string x and l = zlist coeffs in
        let (ord, pool) = !rstate in
        rstate := (ord, set_nth (nat_of_int d) (mp_reduce k (mp_of_upoly x l)) pool);
        (match !cstate with
         | Some (cord, cpool) ->
           (match c_of_upoly k (rk_of cord) c_ensure_capacity fuel x (u_construct k l) with
            | Some c -> cstate := Some (cord, set_nth (nat_of_int d) c cpool)
            | None -> cstate := None; bad := " MODEL-DISAGREE(faithful model: no result)")
         | None -> ());
        dump false; go t
      | "obs" :: a :: t ->
        Buffer.add_string buf " ;";
        let (ord, pool) = !rstate in
        let rk = rk_of ord in
        let p = List.nth pool (int_of_string a) in
        let b x = if x then "1" else "0" in
        let lcn = match mp_lc_num rk fuel p with Some c -> c | None -> Z0 in
        let vars = List.sort compare (List.map int_of_n (mp_vars p)) in
        Buffer.add_string buf (Printf.sprintf "=L%sU%sM%sS%dC%s:%s:V%s#%d"
          (b (mp_is_linear p)) (b (mp_is_univariate p)) (b (mp_is_monomial p)) (sgn_of_z lcn) (b (mp_lc_is_const rk p))
          (string_of_z lcn) (String.concat "" (List.map (fun v -> string_of_int v ^ ",") vars)) (List.length vars));
        Buffer.add_string buf (":K" ^ string_of_mpoly p);
        if mp_is_monomial p then
          Buffer.add_string buf (":T" ^ (match p with [] -> "0" | _ -> string_of_mpoly p));
        dump false; go t
      | "isas" :: a :: mask :: _vals :: t ->
        Buffer.add_string buf " ;";
        let (_, pool) = !rstate in
        let mask = int_of_string mask in
        let set (x : n) = (mask lsr (int_of_n x)) land 1 = 1 in
        Buffer.add_string buf ("=" ^ string_of_bool01 (mp_is_assigned set (List.nth pool (int_of_string a))));
        dump false; go t
      | "touvm" :: a :: mask :: vals :: t ->
        Buffer.add_string buf " ;";
        let (ord, pool) = !rstate in
        let rk = rk_of ord in
        let p = List.nth pool (int_of_string a) in
        let mask = int_of_string mask in
        let set (x : n) = (mask lsr (int_of_n x)) land 1 = 1 in
        let vs = Array.of_list (zlist vals) in
        let rho (x : n) = let i = int_of_n x in if i < Array.length vs then vs.(i) else Z0 in
        let top = mp_top rk p in
        if List.exists (fun x -> Some x <> top && not (set x)) (mp_vars p) then Buffer.add_string buf "=skip"
        else Buffer.add_string buf ("=" ^ str_udense (reduce_dense k (mp_to_upoly_m rk set rho p)));
        dump false; go t
      | "red" :: d :: a :: t ->
        Buffer.add_string buf " ;";
        let (ord, pool) = !rstate in
        let p = List.nth pool (int_of_string a) in
        if mp_top (rk_of ord) p = None then Buffer.add_string buf "=skip"
        else begin
          let r = mp_reductum (rk_of ord) p in
          rstate := (ord, set_nth (i_ d) r pool);
          fresh_text (i_ d);
          reset_faithful (i_ d) r    (* not modelled in the faithful model: rebuilt from the reference value *)
        end;
        dump false; go t
      | "gcoef" :: d :: a :: kk :: t ->
        Buffer.add_string buf " ;";
        let (ord, pool) = !rstate in
        let p = List.nth pool (int_of_string a) in
        let r = mp_get_coeff (rk_of ord) (n_of_string kk) p in
        rstate := (ord, set_nth (i_ d) r pool);
        fresh_text (i_ d);
        reset_faithful (i_ d) r;
        dump false; go t
      | "mgcd" :: t1 :: t2 :: t ->
        Buffer.add_string buf " ;";
        if k <> None then Buffer.add_string buf "=skip"
        else begin
          let conv (m, c) = (mono_of_powers m, c) in
          let (gm, gc) = term_gcd (conv (raw_term t1)) (conv (raw_term t2)) in
          Buffer.add_string buf ("=" ^ string_of_z gc ^
            String.concat "" (List.map (fun (x, e) -> "*x" ^ string_of_n x ^ "^" ^ string_of_n e) gm))
        end;
        dump false; go t
      | "addmon2" :: d :: term :: t ->
        Buffer.add_string buf " ;";
        let (m, c) = raw_term term in
        apply (OAddMon (i_ d, m, c)); dump false; go t
      | o :: _ -> Buffer.add_string buf (" ;UNKNOWN-OP " ^ o)
    in
    go ops;
    Buffer.contents buf
  | _ -> "UNKNOWN-OP"

(* ------------------------------------------------------------------ univariate *)
let run_uv (toks : string list) : string =
  match toks with
  | k :: n :: rest ->
    let k = ring_of k in
    let n = int_of_string n in
    let rec take i l = if i = 0 then ([], l) else match l with x :: t -> let (a, b) = take (i - 1) t in (x :: a, b) | [] -> failwith "pool" in
    let (texts, ops) = take n rest in
    (* reference: dense lists over Z, reduced; faithful: sparse u_* objects *)
    let rpool = ref (Array.of_list (List.map (fun s -> pnorm (reduce_dense k (zlist s))) texts)) in
    let upool = ref (Array.of_list (List.map (fun s -> u_construct k (zlist s)) texts)) in
    let bad = ref "" in
    let buf = Buffer.create 256 in
    let dump first =
      Array.iteri (fun i l ->
        if i > 0 || not first then Buffer.add_char buf ' ';
        Buffer.add_string buf (str_udense l);
        let s2 = str_usparse (!upool).(i) in
        if s2 <> str_udense l && !bad = "" then bad := Printf.sprintf " MODEL-DISAGREE(object %d: reference %s, faithful model %s)" i (str_udense l) s2) !rpool;
      if !bad <> "" then (Buffer.add_string buf !bad; bad := "") in
    dump true;
    let ix s = int_of_string s in
    let put d l u = (!rpool).(d) <- pnorm (reduce_dense k l); (!upool).(d) <- u in
    let put_ref d l = let l' = pnorm (reduce_dense k l) in (!rpool).(d) <- l'; (!upool).(d) <- u_construct k l' in
    let rec go = function
      | [] -> ()
      | ("add" | "sub" | "mul" as o) :: d :: a :: b :: t ->
        Buffer.add_string buf " ;";
        let (pa, pb) = ((!rpool).(ix a), (!rpool).(ix b)) and (ua, ub) = ((!upool).(ix a), (!upool).(ix b)) in
        (match o with
         | "add" -> put (ix d) (padd pa pb) (u_add k ua ub)
         | "sub" -> put (ix d) (psub pa pb) (u_sub k ua ub)
         | _ -> put (ix d) (pmul pa pb) (u_mul k ua ub));
        dump false; go t
      | "neg" :: d :: a :: t -> Buffer.add_string buf " ;"; put (ix d) (pneg (!rpool).(ix a)) (u_neg k (!upool).(ix a)); dump false; go t
      | "der" :: d :: a :: t -> Buffer.add_string buf " ;"; put (ix d) (pderiv (!rpool).(ix a)) (u_derivative k (!upool).(ix a)); dump false; go t
      | "pow" :: d :: a :: e :: t ->
        Buffer.add_string buf " ;";
        (match u_pow k fuel (!upool).(ix a) (n_of_string e) with
         | Some u -> put (ix d) (ppow (!rpool).(ix a) (nat_of_int (int_of_string e))) u
         | None -> bad := " MODEL-DISAGREE(faithful model: no result)");
        dump false; go t
      | "mulc" :: d :: a :: c :: t ->
        Buffer.add_string buf " ;";
        put (ix d) (pscale (z_of_string c) (!rpool).(ix a)) (u_mul_c k (!upool).(ix a) (z_of_string c));
        dump false; go t
      | "evi" :: a :: x :: t ->
        Buffer.add_string buf " ;";
        let v = ring_norm k (peval (!rpool).(ix a) (z_of_string x)) in
        let v2 = u_eval_int k (!upool).(ix a) (z_of_string x) in
        Buffer.add_string buf ("=" ^ string_of_z v);
        if v2 <> v then bad := Printf.sprintf " MODEL-DISAGREE(evaluate_at_integer: reference %s, faithful model %s)" (string_of_z v) (string_of_z v2);
        dump false; go t
      | "evq" :: a :: num :: den :: t ->
        Buffer.add_string buf " ;";
        (match q_canon (z_of_string num, z_of_string den) with
         | None -> Buffer.add_string buf "=SKIP"
         | Some (xa, xb) ->
           let p = (!rpool).(ix a) in
           let (v, bp) = peval_hom_aux p xa xb in
           let r = q_canon' (Z.mul v xb, bp) in
           let r2 = u_eval_rat p (xa, xb) in
           Buffer.add_string buf ("=" ^ string_of_z (fst r) ^ "/" ^ string_of_z (snd r));
           if r2 <> r then bad := " MODEL-DISAGREE(evaluate_at_rational: reference vs Horner model)");
        dump false; go t
      | "evd" :: a :: num :: e :: t ->
        Buffer.add_string buf " ;";
        let x = dy_normalize { da = z_of_string num; dn = n_of_string e } in
        let p = (!rpool).(ix a) in
        let b = pow2 x.dn in
        let (v, _) = peval_hom_aux p x.da b in
        let len = List.length p in
        let r = dy_normalize { da = v; dn = N.mul x.dn (n_of_int (max 0 (len - 1))) } in
        let r2 = u_eval_dy p x in
        Buffer.add_string buf ("=" ^ string_of_z r.da ^ "/" ^ string_of_n r.dn);
        if r2 <> r then bad := " MODEL-DISAGREE(evaluate_at_dyadic_rational: reference vs Horner model)";
        dump false; go t
      | "topoly" :: a :: x :: t ->
        Buffer.add_string buf " ;";
        let ord = List.map n_of_int [0; 1; 2; 3; 4; 5; 6; 7] in
        let p = (!rpool).(ix a) in
        let mp = mp_reduce k (mp_of_upoly (n_of_string x) p) in
        Buffer.add_string buf ("=" ^ str_obs (ref_obs (rk_of ord) mp) ^ "=" ^ str_udense p);
        (match c_of_upoly k (rk_of ord) c_ensure_capacity fuel (n_of_string x) (!upool).(ix a) with
         | Some c ->
           if str_obs (c_obs k c) <> str_obs (ref_obs (rk_of ord) mp) then bad := " MODEL-DISAGREE(to_polynomial in the faithful model)"
           else (match c_to_univariate k c with
                 | Some u when str_usparse u = str_udense p -> ()
                 | _ -> bad := " MODEL-DISAGREE(to_polynomial/to_univariate round trip in the faithful model)")
         | None -> bad := " MODEL-DISAGREE(faithful model: no result)");
        dump false; go t
      | "sgi" :: a :: x :: t ->
        Buffer.add_string buf " ;";
        Buffer.add_string buf ("=" ^ string_of_int (sgn_of_z (psgn_at_int k (!rpool).(ix a) (z_of_string x))));
        dump false; go t
      | "sgq" :: a :: num :: den :: t ->
        Buffer.add_string buf " ;";
        (match q_canon (z_of_string num, z_of_string den) with
         | None -> Buffer.add_string buf "=SKIP"
         | Some (xa, xb) ->
           let p = (!rpool).(ix a) in
           let s1 = sgn_of_z (psgn_at_rat p xa xb) and s2 = sgn_of_z (q_sgn (u_eval_rat p (xa, xb))) in
           Buffer.add_string buf ("=" ^ string_of_int s1);
           if s1 <> s2 then bad := " MODEL-DISAGREE(sgn_at_rational: homogeneous evaluation vs Horner model)");
        dump false; go t
      | "sgd" :: a :: num :: e :: t ->
        Buffer.add_string buf " ;";
        let x = dy_normalize { da = z_of_string num; dn = n_of_string e } in
        let p = (!rpool).(ix a) in
        let s1 = sgn_of_z (psgn_at_rat p x.da (pow2 x.dn)) and s2 = sgn_of_z (dy_sgn (u_eval_dy p x)) in
        Buffer.add_string buf ("=" ^ string_of_int s1);
        if s1 <> s2 then bad := " MODEL-DISAGREE(sgn_at_dyadic_rational: homogeneous evaluation vs Horner model)";
        dump false; go t
      | "uobs" :: a :: t ->
        Buffer.add_string buf " ;";
        let p = (!rpool).(ix a) in
        let ct = match p with c :: _ when c <> Z0 -> string_of_z c | [] -> "0" | _ -> "none" in
        let lc = plc p in
        let b x = if x then "1" else "0" in
        Buffer.add_string buf (Printf.sprintf "=c%s:l%s:z%so%sm%s" ct (string_of_z lc) (b (p = []))
          (b (p = [z_of_int 1])) (b (lc = z_of_int 1)));
        dump false; go t
      | "monic" :: d :: a :: t ->
        Buffer.add_string buf " ;";
        (match pmake_monic k (!rpool).(ix a) with
         | None -> Buffer.add_string buf "=skip"
         | Some q -> put_ref (ix d) q);
        dump false; go t
      | "monici" :: a :: t ->
        Buffer.add_string buf " ;";
        (match pmake_monic k (!rpool).(ix a) with
         | None -> Buffer.add_string buf "=skip"
         | Some q -> put_ref (ix a) q);
        dump false; go t
      | "negi" :: a :: t -> Buffer.add_string buf " ;"; put (ix a) (pneg (!rpool).(ix a)) (u_neg k (!upool).(ix a)); dump false; go t
      | "rev" :: a :: t -> Buffer.add_string buf " ;"; put_ref (ix a) (preverse (!rpool).(ix a)); dump false; go t
      | "sxn" :: d :: a :: t -> Buffer.add_string buf " ;"; put_ref (ix d) (psubst_neg (!rpool).(ix a)); dump false; go t
      | "sxp" :: a :: e :: t -> Buffer.add_string buf " ;"; put_ref (ix a) (psubst_pow (nat_of_int (int_of_string e)) (!rpool).(ix a)); dump false; go t
      | "cpow" :: d :: deg :: c :: t -> Buffer.add_string buf " ;"; put_ref (ix d) (ppower (nat_of_int (int_of_string deg)) (z_of_string c)); dump false; go t
      | ("cint" | "clong") :: d :: l :: t -> Buffer.add_string buf " ;"; put_ref (ix d) (zlist l); dump false; go t
      | "divdeg" :: d :: a :: e :: t ->
        Buffer.add_string buf " ;";
        let aa = int_of_string e and p = (!rpool).(ix a) in
        if aa <= 1 || not (pdiv_degrees_ok (nat_of_int aa) p) then Buffer.add_string buf "=skip"
        else put_ref (ix d) (pdiv_degrees (nat_of_int aa) p);
        dump false; go t
      | ("setring" | "copyk") :: a :: m2 :: t ->
        Buffer.add_string buf " ;";
        Buffer.add_string buf ("=1=" ^ str_udense (pnorm (reduce_dense (ring_of m2) (!rpool).(ix a))));
        dump false; go t
      | o :: _ -> Buffer.add_string buf (" ;UNKNOWN-OP " ^ o)
    in
    go ops;
    Buffer.contents buf
  | _ -> "UNKNOWN-OP"

let run (toks : string list) (_cout : string list) : string =
  match toks with
  | "mv" :: rest -> run_mv rest
  | "uv" :: rest -> run_uv rest
  | _ -> "UNKNOWN-OP"
