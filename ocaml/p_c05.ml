(* C05 model driver: runs the CHECKERS of FactorCheck.v on the factorization libpoly printed, and compares the
   square-free factorizations with the Yun-loop models of Factor.v.
   Prints CHECK ok [notes] / CHECK fail <why>.  The searches (which primes, which certificates) are untrusted
   OCaml; every accepting decision is taken by an extracted checker. *)
open Model
open Io

let fuel = nat_of_int 4000
let zi = z_of_int
let izero = Z0
let is0 z = (z = Z0)
let zmod a b = z_of_zarith (ZA.erem (zarith_of_z a) (zarith_of_z b))
let zabs a = z_of_zarith (ZA.abs (zarith_of_z a))
let zfloat a = ZA.to_float (zarith_of_z a)
let rec pairs = function
  | f :: m :: r -> (f, int_of_string m) :: pairs r
  | [] -> []
  | _ -> failwith "odd factor list"
let split_hint toks =
  let rec go acc = function [] -> (List.rev acc, []) | "|" :: r -> (List.rev acc, r) | t :: r -> go (t :: acc) r in
  go [] toks

let deg f = int_of_nat (pdeg f)
let ufs l = List.map (fun (f, m) -> (upoly_of_string f, nat_of_int m)) l
let show_u f = string_of_upoly f

(* canonical forms for comparing factor multisets *)
let norm_Z f = let f = pnorm f in if sgn_of_z (plc f) < 0 then pneg f else f
let norm_Zp p f = pnorm (pmonic_p p f)
let key_of fs = List.sort compare (List.map (fun (f, m) -> (show_u f, int_of_nat m)) fs)
let show_key k = String.concat " " (List.map (fun (f, m) -> "(" ^ f ^ ")^" ^ string_of_int m) k)
(* merge equal factors, add multiplicities *)
let merge k =
  let rec go = function
    | (f, m) :: (g, n) :: r when f = g -> go ((f, m + n) :: r)
    | x :: r -> x :: go r
    | [] -> [] in go (List.sort compare k)

let ipow a b = let rec go acc b = if b = 0 then acc else go (acc *. a) (b - 1) in go 1.0 b

(* ---------------------------------------------------------------- irreducibility over Z_p *)
type verdict = Irred of string | Red of string | Unknown of string

let irred_Zp (pi : int) (g : z list) : verdict =
  let p = zi pi in
  let d = int_of_nat (psize_p p g) - 1 in
  if d < 1 then Red "constant factor" else
  let rabin = rabin_check p g in
  if ipow (float pi) (d / 2) <= 60000.0 then begin
    let t = irreducible_Zp_check p g in
    if t <> rabin then Unknown (Printf.sprintf "trial division says %b, Rabin says %b for %s mod %d" t rabin (show_u g) pi)
    else if t then Irred "trial" else Red "divisor found by trial division / Rabin"
  end else if rabin then Irred "rabin-oracle" else Red "Rabin's test fails"

(* ---------------------------------------------------------------- irreducibility over Z *)
let small_primes = [2; 3; 5; 7; 11; 13; 17; 19; 23; 29; 31; 37; 41; 43; 47; 53; 59; 61; 67; 71; 73; 79; 83; 89; 97; 101]

let norm2_ceil (g : z list) : float =
  ceil (sqrt (List.fold_left (fun s c -> let x = zfloat c in s +. x *. x) 0.0 g))
let binom n k = let rec go acc i = if i > k then acc else go (acc *. float (n - i + 1) /. float i) (i + 1) in go 1.0 1

let irred_Z (g : z list) : verdict =
  let g = pnorm g in
  let d = deg g in
  if d < 1 then Red "constant factor" else
  if d = 1 then (if irred_Z_cert g [] then Irred "linear" else Unknown "linear rejected") else begin
    (* accumulate modular certificates, cheapest primes first *)
    let budget = 40000.0 in
    let usable = List.filter (fun p -> ipow (float p) (d / 2) <= budget && not (is0 (zmod (plc g) (zi p)))) small_primes in
    let rec go certs = function
      | [] -> None
      | p :: rest ->
        let c = find_modcerts g [zi p] in
        let certs = certs @ c in
        if irred_Z_cert g certs then Some (List.length certs) else if List.length certs >= 8 then None else go certs rest in
    match go [] usable with
    | Some n -> Irred (Printf.sprintf "degree-certificate(%d primes)" n)
    | None ->
      (* ORACLE fall-back: exhaustive search within a Landau-Mignotte bound *)
      let k = d / 2 in
      let b = binom k (k / 2) *. norm2_ceil g in
      let lc = abs_float (zfloat (plc g)) in
      let cost = ipow (2.0 *. b +. 1.0) k *. lc in
      if cost <= 300000.0 then
        (if no_factor_bounded g (zi (int_of_float b)) then Irred "bounded-search-oracle" else Red "divisor found by bounded search")
      else Unknown "no degree certificate and bounded search too expensive"
  end

(* ---------------------------------------------------------------- univariate cases *)
let fail s = "CHECK fail: " ^ s
exception Fail of string
let need b s = if not b then raise (Fail s)

let rec pairwise f = function
  | [] -> ()
  | x :: r -> List.iter (fun y -> f x y) r; pairwise f r

let run_usqf (pi : int) (f : z list) (cout : string list) : string =
  match cout with
  | ["ABORT"] -> fail "libpoly aborted (assertion failure) on a non-zero polynomial"
  | c :: _k :: rest ->
    (try
      let c = z_of_string c in
      let fs = ufs (pairs rest) in
      if pi = 0 then begin
        need (mulback_Z c fs f) "constant * product of factors^multiplicities <> input";
        List.iter (fun (g, m) ->
          need (int_of_nat m >= 1) "multiplicity 0";
          need (deg g >= 1) ("constant factor " ^ show_u g);
          match sqfree_decide_Z g with
          | Some true -> ()
          | Some false -> raise (Fail ("factor not square-free: " ^ show_u g))
          | None -> raise (Fail ("no square-freeness certificate for " ^ show_u g))) fs;
        pairwise (fun (g, _) (h, _) ->
          match coprime_decide_Z g h with
          | Some true -> ()
          | Some false -> raise (Fail ("factors not coprime: " ^ show_u g ^ " and " ^ show_u h))
          | None -> raise (Fail "no coprimality certificate")) fs;
        (* the Yun-loop model as coded *)
        (match factor_square_free_Z fuel f with
         | None -> "FUEL"
         | Some (c', fs') ->
           let k1 = key_of (List.map (fun (g, m) -> (norm_Z g, m)) fs) and k2 = key_of (List.map (fun (g, m) -> (norm_Z g, m)) fs') in
           if k1 <> k2 || c <> c' then fail ("differs from the Yun-loop model: model " ^ string_of_z c' ^ " * " ^ show_key k2)
           else "CHECK ok")
      end else begin
        let p = zi pi in
        need (mulback_Zp p c fs f) "constant * product of factors^multiplicities <> input (mod p)";
        List.iter (fun (g, m) ->
          need (int_of_nat m >= 1) "multiplicity 0";
          need (int_of_nat (psize_p p g) >= 2) ("constant factor " ^ show_u g);
          match sqfree_decide_Zp p g with
          | Some true -> ()
          | Some false -> raise (Fail ("factor not square-free mod p: " ^ show_u g))
          | None -> raise (Fail ("no square-freeness certificate for " ^ show_u g))) fs;
        pairwise (fun (g, _) (h, _) ->
          match coprime_decide_Zp p g h with
          | Some true -> ()
          | Some false -> raise (Fail ("factors not coprime mod p: " ^ show_u g ^ " and " ^ show_u h))
          | None -> raise (Fail "no coprimality certificate")) fs;
        (match factor_square_free_Zp p fuel f with
         | None -> "FUEL"
         | Some (c', fs') ->
           let k1 = key_of (List.map (fun (g, m) -> (norm_Zp p g, m)) fs) and k2 = key_of (List.map (fun (g, m) -> (norm_Zp p g, m)) fs') in
           if k1 <> k2 || not (is0 (zmod (z_of_zarith (ZA.sub (zarith_of_z c) (zarith_of_z c'))) p)) then
             fail ("differs from the Yun-loop model: model " ^ string_of_z c' ^ " * " ^ show_key k2)
           else "CHECK ok")
      end
    with Fail s -> fail s)
  | _ -> fail "unparsable output"

(* planted factorisation from the hint: constant, (factor, multiplicity) list *)
let planted hint = match hint with
  | c :: rest -> Some (z_of_string c, ufs (pairs rest))
  | [] -> None

let run_ufac (pi : int) (f : z list) (cout : string list) (hint : string list) : string =
  match cout with
  | ["ABORT"] -> fail "libpoly aborted (assertion failure) on a non-zero polynomial"
  | c :: _k :: rest ->
    (try
      let c = z_of_string c in
      let fs = ufs (pairs rest) in
      let p = zi pi in
      let notes = ref [] in
      let note s = if not (List.mem s !notes) then notes := s :: !notes in
      if pi = 0 then need (mulback_Z c fs f) "constant * product of factors^multiplicities <> input"
      else need (mulback_Zp p c fs f) "constant * product of factors^multiplicities <> input (mod p)";
      let norm = if pi = 0 then norm_Z else norm_Zp p in
      let irr g = if pi = 0 then irred_Z g else irred_Zp pi g in
      let unknown = ref [] in
      List.iter (fun (g, m) ->
        need (int_of_nat m >= 1) "multiplicity 0";
        if pi = 0 then need (pcontent g = zi 1) ("factor not primitive: " ^ show_u g);
        match irr g with
        | Irred how -> note how
        | Red why -> raise (Fail ("factor " ^ show_u g ^ " is not irreducible: " ^ why))
        | Unknown why -> unknown := (g, why) :: !unknown) fs;
      let k1 = key_of (List.map (fun (g, m) -> (norm g, m)) fs) in
      pairwise (fun (g, _) (h, _) -> need (g <> h) ("the same factor is listed twice: " ^ g)) k1;
      (* planted factorisation: decided by the same checkers, never assumed *)
      (match planted hint with
       | None -> ()
       | Some (_, pl) ->
         let all_irred = List.for_all (fun (g, _) -> match irr g with Irred _ -> true | _ -> false) pl in
         let k2 = merge (key_of (List.map (fun (g, m) -> (norm g, m)) pl)) in
         if all_irred then
           need (k1 = k2) ("factors differ from the (checker-certified) irreducible factorisation " ^ show_key k2)
         else begin
           note "planted-not-certified";
           (* still: a planted factor that properly divides an output factor refutes its irreducibility *)
           List.iter (fun (g, _) -> List.iter (fun (h, _) ->
             if deg h >= 1 && deg h < deg g then
               let divides = if pi = 0 then divides_Z h g else (match pdiv_Zp p g (norm_Zp p h) with Some _ -> true | None -> false) in
               need (not divides) ("factor " ^ show_u g ^ " is divisible by " ^ show_u h)) pl) fs
         end);
      (match !unknown with
       | [] -> "CHECK ok " ^ String.concat "," (List.sort compare !notes)
       | (g, why) :: _ ->
         if String.length why > 5 && String.sub why 0 5 = "trial" then fail why
         else "CHECK ok UNVERIFIED-irreducibility " ^ show_u g)
    with Fail s -> fail s)
  | _ -> fail "unparsable output"

(* ---------------------------------------------------------------- multivariate (square-freeness / coprimality: ORACLE by
   specialisation to univariate images that keep the degree, each decided by the certified univariate checker) *)
let mfs l = List.map (fun (f, m) -> (mpoly_of_string f, nat_of_int m)) l
let points = [| [|2; 3; 5|]; [|-3; 7; 2|]; [|11; -5; 13|]; [|-17; 19; -7|]; [|23; 29; 31|]; [|37; -41; 43|]; [|1; -1; 2|]; [|-2; 1; 3|] |]
let vars_of (f : mpoly) = List.sort compare (List.map int_of_n (mp_vars f))
(* image of f in Z[x] at point number i for the other variables; None if the degree in x drops *)
let image (f : mpoly) (x : int) (i : int) : z list option =
  let others = List.filter (fun y -> y <> x) (vars_of f) in
  let g = List.fold_left (fun g y -> mp_subst (n_of_int y) (mp_const (zi points.(i).(y mod 3))) g) f others in
  if mp_degree (n_of_int x) g = mp_degree (n_of_int x) f && g <> [] then Some (pnorm (mp_to_upoly (n_of_int x) g)) else None

(* no repeated factor involving x / no common factor involving x, at some point *)
let m_sqfree_in f x =
  let rec go i seen_false = if i >= Array.length points then (if seen_false then `No else `Unknown) else
    match image f x i with
    | None -> go (i + 1) seen_false
    | Some u -> (match sqfree_decide_Z u with Some true -> `Yes | Some false -> go (i + 1) true | None -> go (i + 1) seen_false) in
  go 0 false
let m_coprime_in f g x =
  let rec go i seen_false = if i >= Array.length points then (if seen_false then `No else `Unknown) else
    match image f x i, image g x i with
    | Some u, Some v -> (match coprime_decide_Z u v with Some true -> `Yes | Some false -> go (i + 1) true | None -> go (i + 1) seen_false)
    | _ -> go (i + 1) seen_false in
  go 0 false

let run_mpoly (sqf : bool) (f : mpoly) (cout : string list) : string =
  match cout with
  | ["ABORT"] -> fail "libpoly aborted (assertion failure)"
  | _k :: rest ->
    (try
      let fs = mfs (pairs rest) in
      List.iter (fun (g, m) -> need (int_of_nat m >= 1) "multiplicity 0"; need (mp_wf g) "factor not in canonical form") fs;
      need (mulback_M fs f) "product of factors^multiplicities <> input";
      if sqf then begin
        let nonconst = List.filter (fun (g, _) -> vars_of g <> []) fs in
        need (List.length fs - List.length nonconst <= 1) "more than one constant factor";
        List.iter (fun (g, _) ->
          need (zabs (mp_content g) = zi 1) ("non-constant factor with integer content: " ^ string_of_mpoly g);
          List.iter (fun x -> match m_sqfree_in g x with
            | `Yes -> ()
            | `No -> raise (Fail ("factor not square-free (in x" ^ string_of_int x ^ "): " ^ string_of_mpoly g))
            | `Unknown -> raise (Fail ("square-freeness undecided for " ^ string_of_mpoly g))) (vars_of g)) nonconst;
        pairwise (fun (g, _) (h, _) ->
          List.iter (fun x -> if List.mem x (vars_of h) then
            match m_coprime_in g h x with
            | `Yes -> ()
            | `No -> raise (Fail ("factors not coprime: " ^ string_of_mpoly g ^ " and " ^ string_of_mpoly h))
            | `Unknown -> raise (Fail "coprimality undecided")) (vars_of g)) nonconst
      end;
      "CHECK ok"
    with Fail s -> fail s)
  | _ -> fail "unparsable output"

let run (toks : string list) (cout : string list) : string =
  let (toks, hint) = split_hint toks in
  match toks with
  | [op; p; poly] when op = "ufac" || op = "usqf" ->
    let pi = int_of_string p in
    let f = upoly_of_string poly in
    let nz = if pi = 0 then not (pis_zero f) else int_of_nat (psize_p (zi pi) f) > 0 in
    if not nz then "SKIP" else
    if op = "usqf" then run_usqf pi f cout else run_ufac pi f cout hint
  | [op; _ord; poly] when op = "msqf" || op = "mcf" ->
    let f = mpoly_of_string poly in
    if f = [] then "SKIP" else run_mpoly (op = "msqf") f cout
  | _ -> "UNKNOWN-OP"
