(* C19 model driver: output-operand independence and reference-counting histories. *)
open Model
open Io

let fuel = nat_of_int 3000

(* main (top) variable under the default order x0 < x1 < ... = largest index occurring *)
let top_var (p : mpoly) : n option =
  List.fold_left (fun acc (m, _) -> List.fold_left (fun acc (x, _) ->
    match acc with None -> Some x | Some y -> if int_of_n x > int_of_n y then Some x else acc) acc m) None p

let all_equal l = match l with [] -> true | x :: r -> List.for_all (fun y -> y = x) r

(* split the C output "r1 r2 ... in:A B" *)
let split_in (cout : string list) =
  let rec go acc = function
    | [] -> (List.rev acc, [])
    | t :: rest when String.length t >= 3 && String.sub t 0 3 = "in:" -> (List.rev acc, String.sub t 3 (String.length t - 3) :: rest)
    | t :: rest -> go (t :: acc) rest in
  go [] cout

let strip_self t = if String.length t > 5 && String.sub t 0 5 = "self:" then String.sub t 5 (String.length t - 5) else t

let pdst op a b prior cout =
  let pa = mpoly_of_string a in
  let (res, ins) = split_in cout in
  let inputs_ok = match ins with
    | [a'] -> a' = string_of_mpoly pa
    | [a'; b'] -> a' = string_of_mpoly pa && b' = string_of_mpoly (mpoly_of_string b)
    | _ -> false in
  if not inputs_ok then "CHECK fail: an input operand was modified" else
  let nat_of s = nat_of_int (int_of_string s) in
  let expect_all (e : mpoly) =
    let s = string_of_mpoly e in
    if List.for_all (fun r -> r = s) res then "CHECK ok" else "CHECK fail: expected " ^ s in
  match op with
  | "add" | "sub" | "mul" ->
    let pb = mpoly_of_string b in
    let f = (match op with "add" -> mp_add | "sub" -> mp_sub | _ -> mp_mul) in
    let e = string_of_mpoly (f pa pb) and eself = string_of_mpoly (f pa pa) in
    (match res with
     | [r1; r2; r3; r4; r5] when r1 = e && r2 = e && r3 = e && r4 = e && strip_self r5 = eself -> "CHECK ok"
     | _ -> "CHECK fail: expected " ^ e ^ " and self " ^ eself)
  | "addmul" | "submul" ->
    let pb = mpoly_of_string b and pp = mpoly_of_string prior in
    let f acc = if op = "addmul" then mp_add acc (mp_mul pa pb) else mp_sub acc (mp_mul pa pb) in
    (match res with
     | [r1; r2; r3; r4] when r1 = string_of_mpoly (f pp) && r2 = r1 && r3 = string_of_mpoly (f pa) && r4 = string_of_mpoly (f pb) -> "CHECK ok"
     | _ -> "CHECK fail: expected " ^ string_of_mpoly (f pp) ^ " " ^ string_of_mpoly (f pa) ^ " " ^ string_of_mpoly (f pb))
  | "neg" -> expect_all (mp_neg pa)
  | "assign" -> expect_all pa
  | "pow" -> expect_all (mp_pow pa (nat_of b))
  | "mulint" -> expect_all (mp_scale (z_of_string b) pa)
  | "derivative" -> (match top_var pa with Some x -> expect_all (mp_deriv x pa) | None -> expect_all [])
  | "shl" -> (match top_var pa with Some x -> expect_all (mp_mul pa (mp_var_pow x (n_of_string b))) | None -> "SKIP")
  | "coeff" -> (match top_var pa with Some x -> expect_all (mp_coeff x (n_of_string b) pa) | None -> "SKIP")
  | _ ->
    (* operations whose value is another property's business: only independence of the output operand *)
    let res' = List.map strip_self (List.filter (fun r -> not (String.length r > 5 && String.sub r 0 5 = "self:")) res) in
    if all_equal res' then "CHECK ok" else "CHECK fail: results differ between fresh / pre-used / aliased outputs"

let vdst op a b cout =
  try
    let x = rnum_of_token a in
    let reference =
      match op with
      | "add" -> rn_add fuel x (rnum_of_token b)
      | "sub" -> rn_sub fuel x (rnum_of_token b)
      | "mul" -> rn_mul fuel x (rnum_of_token b)
      | "div" -> rn_div fuel x (rnum_of_token b)
      | "neg" -> Some (rn_neg x)
      | "inv" -> rn_inv fuel x
      | "assign" -> Some x
      | "pow" -> rn_pow fuel x (nat_of_int (int_of_string b))
      | _ -> None in
    match reference with
    | None -> "FUEL"
    | Some e ->
      let is_self t = String.length t > 5 && String.sub t 0 5 = "self:" in
      let selfs = List.map strip_self (List.filter is_self cout) and cout' = List.filter (fun t -> not (is_self t)) cout in
      (* out == a == b: the reference is op a a *)
      let eself = (match selfs, op with
        | [], _ -> Some e
        | _, "add" -> rn_add fuel x x | _, "sub" -> rn_sub fuel x x | _, "mul" -> rn_mul fuel x x | _, "div" -> rn_div fuel x x
        | _ -> None) in
      (match eself with
       | None -> "FUEL"
       | Some es ->
         let differs r t = (match rn_cmp fuel (rnum_of_token t) r with Some Z0 -> false | _ -> true) in
         let bad = List.filter (differs e) cout' @ List.filter (differs es) selfs in
         if bad = [] && cout' <> [] then "CHECK ok"
         else "CHECK fail: expected " ^ string_of_rnum e ^ (if selfs <> [] then " self " ^ string_of_rnum es else "") ^ " got " ^ String.concat " " cout)
  with Bad_value s -> "CHECK fail: " ^ s

(* scalar layer: the model value (output operand independence of dy_add / dy_sub / dy_mul is a theorem of Properties_C19,
   so the pure value is the reference for every aliasing pattern); the texts must be identical, not just equal in value *)
let sdst toks cout =
  let (res, ins) = split_in cout in
  let z = z_of_string in
  let chk e eself ein =
    if ins <> ein then "CHECK fail: an input operand was modified" else
    match res with
    | [r1; r2; r3; r4; r5] when r1 = e && r2 = e && r3 = e && r4 = e && r5 = "self:" ^ eself -> "CHECK ok"
    | _ -> "CHECK fail: expected " ^ e ^ " for every output operand and self:" ^ eself in
  let str_dy d = string_of_z d.da ^ "/" ^ string_of_n d.dn in
  let opt f = function Some v -> f v | None -> "none" in
  match toks with
  | ["d"; op; a; an; b; bn; _; _] ->
    let x = { da = z a; dn = n_of_string an } and y = { da = z b; dn = n_of_string bn } in
    let fresh = { da = Z0; dn = N0 } in
    let f = (match op with "add" -> dy_add | "sub" -> dy_sub | "mul" -> dy_mul | _ -> failwith "bad sdst d op") in
    chk (str_dy (f NoAlias fresh x y)) (str_dy (f NoAlias fresh x x)) [str_dy x; str_dy y]
  | ["q"; op; a; b; c; d; _; _] ->
    let x = (z a, z b) and y = (z c, z d) in
    let f p q = (match op with "add" -> Some (q_add p q) | "sub" -> Some (q_sub p q) | "mul" -> Some (q_mul p q)
                 | "div" -> q_div p q | _ -> failwith "bad sdst q op") in
    if op = "div" && fst y = Z0 then (if cout = ["none"] then "CHECK ok" else "CHECK fail: division by zero is outside the domain")
    else chk (opt string_of_rat (f x y)) (opt string_of_rat (f x x)) [string_of_rat x; string_of_rat y]
  | ["z"; op; m; a; b; u] ->
    let k = (if m = "0" then None else Some (z m)) and x = z a and y = z b in
    (match op with
     | "addmul" | "submul" ->
       let f s p q = string_of_z ((if op = "addmul" then int_add_mul else int_sub_mul) k s p q) in
       if ins <> [string_of_z x; string_of_z y] then "CHECK fail: an input operand was modified" else
       (match res with
        | [r1; r2; r3; r4] when r1 = f (z u) x y && r2 = f x x y && r3 = f y x y && r4 = "self:" ^ f x x x -> "CHECK ok"
        | _ -> "CHECK fail: expected " ^ String.concat " " [f (z u) x y; f x x y; f y x y; "self:" ^ f x x x])
     | _ ->
       let f p q = (match op with
         | "add" -> Some (int_add k p q) | "sub" -> Some (int_sub k p q) | "mul" -> Some (int_mul k p q)
         | "divexact" -> int_div_exact k p q
         | "divZ" -> Some (int_div_Z p q) | "remZ" -> Some (int_rem_Z p q)
         | "gcd" -> Some (int_gcd_Z p q) | "lcm" -> Some (int_lcm_Z p q)
         | _ -> failwith "bad sdst z op") in
       let div = List.mem op ["divexact"; "divZ"; "remZ"] in
       if div && y = Z0 then (if cout = ["none"] then "CHECK ok" else "CHECK fail: division by zero is outside the domain")
       else chk (opt string_of_z (f x y)) (if div && x = Z0 then "none" else opt string_of_z (f x x)) [string_of_z x; string_of_z y])
  | _ -> "UNKNOWN-OP"

let rc (toks : string list) =
  (* translate to the model's operations; polynomials are holders of their context *)
  let poly_ctx = Hashtbl.create 16 in
  let npoly = ref 0 in
  let rec go toks acc =
    match toks with
    | [] -> List.rev acc
    | "nr" :: _ :: r -> go r (New [] :: acc)
    | "nd" :: r -> go r (New [] :: acc)
    | "no" :: r -> go r (New [] :: acc)
    | "nc" :: k :: d :: o :: r ->
      let ks = (if int_of_string k < 0 then [] else [nat_of_int (int_of_string k)]) @ [nat_of_int (int_of_string d); nat_of_int (int_of_string o)] in
      go r (New ks :: acc)
    | "a" :: i :: r -> go r (Attach (nat_of_int (int_of_string i)) :: acc)
    | "d" :: i :: r -> go r (Detach (nat_of_int (int_of_string i)) :: acc)
    | "np" :: c :: r -> Hashtbl.replace poly_ctx !npoly (int_of_string c); incr npoly; go r (Attach (nat_of_int (int_of_string c)) :: acc)
    | "up" :: _ :: r -> go r acc      (* using a polynomial as an output operand changes no reference count *)
    | "dp" :: j :: r -> go r (Detach (nat_of_int (Hashtbl.find poly_ctx (int_of_string j))) :: acc)
    | _ -> failwith "bad rc token" in
  let ops = go toks [] in
  (* every operation of the history must be inside the contract (else the generator is wrong) *)
  let ok = ref true in
  let final = List.fold_left (fun (s, h) o -> if not (permitted s h o) then ok := false; step (s, h) o) (init, (fun _ -> O)) ops in
  if not !ok then "SKIP history outside the contract" else
  let (s, _) = final in
  let n = int_of_nat (live_count s s.nxt) in
  "live=" ^ (if n > 0 then "1" else "0")

let run (toks : string list) (cout : string list) : string =
  match toks with
  | ["pdst"; op; a; b; prior] -> pdst op a b prior cout
  | ["pdst2"; _; a; b; _; _] ->
    let (res, ins) = split_in cout in
    if ins <> [string_of_mpoly (mpoly_of_string a); string_of_mpoly (mpoly_of_string b)] then "CHECK fail: an input operand was modified"
    else if all_equal res && res <> [] then "CHECK ok" else "CHECK fail: results differ between fresh / pre-used / aliased outputs"
  | ["vdst"; op; a; b; _] -> vdst op a b cout
  | "sdst" :: rest -> sdst rest cout
  | "idst" :: _ -> if all_equal cout && cout <> [] then "CHECK ok" else "CHECK fail: interval results differ between output operands"
  | "rc" :: rest -> rc rest
  | "isub" :: _ ->
    (* tokens come in pairs tag:interval (separate copy of the value, then the interval's own end): each pair must agree *)
    let rec pairs = function
      | a :: b :: r -> if a = b then pairs r else Some (a, b)
      | _ -> None in
    let toks = List.filter (fun x -> String.length x > 3 && x.[2] = ':') cout in
    (match pairs toks with
     | None -> "CHECK ok"
     | Some (a, b) -> "CHECK fail: with a copy of the value: " ^ a ^ ", with the interval's own end as the argument: " ^ b)
  | "vlist" :: nv :: ids ->
    (* plain list semantics: position of first occurrence; every pushed id is contained; order = list position *)
    let nv = int_of_string nv in
    let ids = List.filter (fun i -> i >= 0 && i < nv) (List.map int_of_string ids) in
    let distinct = List.fold_left (fun acc i -> if List.mem i acc then acc else acc @ [i]) [] ids in
    let pos i = let rec go k = function [] -> -1 | x :: r -> if x = i then k else go (k + 1) r in go 0 distinct in
    let b x = if List.mem x distinct then "1" else "0" in
    let per = String.concat "" (List.map (fun i -> Printf.sprintf "%d:%d:1 " i (pos i)) ids) in
    let cmp = (match ids with a :: c :: _ -> Printf.sprintf " cmp:%d" (compare (pos a) (pos c)) | _ -> "") in
    Printf.sprintf "%s| 0:%s %d:%s%s size:%d" per (b 0) (nv - 1) (b (nv - 1)) cmp (List.length distinct)
  | _ -> "UNKNOWN-OP"
