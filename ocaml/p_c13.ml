(* C13 model driver: feasibility sets on pool ranks (B, C) and on literal rationals (Q).
   Prints the line the C driver must print; where the property leaves freedom (picked values) the proved
   checker is run on the implementation's value, which is echoed when accepted. *)
open Model
open Io

(* constants of the pool of harness/c13.c (cross-checked by the POOL case of the corpus) *)
let npool = 27
let zero_rank = 9
let minf = z_of_int 0
let pinf = z_of_int (npool - 1)

exception Bad of string

(* ---- parsing of sets:  {}  |  itv(;itv)*   with end points parsed by [ep] *)
let parse_set (ep : string -> 'a) (s : string) : 'a itv list =
  if s = "{}" then [] else
  List.map (fun t ->
    let n = String.length t in
    if n < 3 then raise (Bad t) else
    if t.[0] = '{' then
      let a = ep (String.sub t 1 (n - 2)) in
      { ia = a; ib = a; ia_open = false; ib_open = false; ipt = true }
    else begin
      let body = String.sub t 1 (n - 2) in
      match String.index_opt body ',' with
      | None -> raise (Bad t)
      | Some k ->
        let a = ep (String.sub body 0 k) and b = ep (String.sub body (k + 1) (String.length body - k - 1)) in
        { ia = a; ib = b; ia_open = (t.[0] = '('); ib_open = (t.[n - 1] = ')'); ipt = false }
    end) (String.split_on_char ';' s)

let rank_ep (s : string) : z =
  let s = match String.index_opt s '.' with Some k -> String.sub s 0 k | None -> s in
  z_of_string s

let canon (n : z) (d : z) : rat =
  match q_canon (n, d) with Some q -> q | None -> raise (Bad "zero denominator")

let rec pow2z k = if k <= 0 then z_of_int 1 else Z.mul (z_of_int 2) (pow2z (k - 1))

let lit_ep (s : string) : xq =
  if s = "-inf" then XQMinf else if s = "+inf" then XQPinf else
  let k = s.[0] and rest = String.sub s 1 (String.length s - 1) in
  let pair () = match String.index_opt rest '/' with
    | Some i -> (String.sub rest 0 i, String.sub rest (i + 1) (String.length rest - i - 1))
    | None -> raise (Bad s) in
  match k with
  | 'i' -> XQFin (z_of_string rest, z_of_int 1)
  | 'q' -> let (a, b) = pair () in XQFin (canon (z_of_string a) (z_of_string b))
  | 'd' -> let (a, b) = pair () in XQFin (canon (z_of_string a) (pow2z (int_of_string b)))
  | _ -> raise (Bad s)

(* "n/d" as printed by the C driver *)
let value_ep (s : string) : xq option =
  if s = "-inf" then Some XQMinf else if s = "+inf" then Some XQPinf else
  match String.index_opt s '/' with
  | Some i -> (try Some (XQFin (canon (z_of_string (String.sub s 0 i)) (z_of_string (String.sub s (i + 1) (String.length s - i - 1)))))
               with _ -> None)
  | None -> None

(* ---- printing on ranks *)
let str_itv (x : z itv) : string =
  if x.ipt then "{" ^ string_of_z x.ia ^ "}"
  else (if x.ia_open then "(" else "[") ^ string_of_z x.ia ^ "," ^ string_of_z x.ib ^ (if x.ib_open then ")" else "]")
let str_set (s : z itv list) : string =
  if s = [] then "{}" else String.concat ";" (List.map str_itv s)
let str_oset = function Some s -> str_set s | None -> "ABORT"

let status_code = function ST_S1 -> 0 | ST_S2 -> 1 | ST_NEW -> 2 | ST_EMPTY -> 3
let rel_code = function LT_NO -> 0 | LT_WI -> 1 | LT_WI_I1 -> 2 | LEQ_WI_I2 -> 3 | REQ -> 4 | GEQ_WI_I1 -> 5
                      | GT_WI_I2 -> 6 | GT_WI -> 7 | GT_NO -> 8
let sgnc = function Lt -> "-" | Eq -> "0" | Gt -> "+"

let field (cout : string list) (pre : string) : string option =
  let n = String.length pre in
  List.fold_left (fun acc t ->
    match acc with Some _ -> acc | None ->
      if String.length t >= n && String.sub t 0 n = pre then Some (String.sub t n (String.length t - n)) else None)
    None cout

let probes_of (s : string) : int list =
  if s = "*" then List.init npool (fun i -> i) else List.map int_of_string (String.split_on_char ',' s)

let flags s =
  string_of_bool01 (rk_is_empty s) ^ string_of_bool01 (rk_is_full minf pinf s) ^ string_of_bool01 (rk_is_point s)
let oflags = function Some s -> flags s | None -> "ABORT"

let sweep probes s =
  String.concat "" (List.map (fun r ->
    match rk_contains s (z_of_int r) with Some b -> string_of_bool01 b | None -> "A") probes)
let osweep probes = function Some s -> sweep probes s | None -> "ABORT"

let hull s = if s = [] then "-" else match rk_to_interval s with Some j -> str_itv j | None -> "ABORT"
let ohull = function Some s -> hull s | None -> "ABORT"

(* doubled ranks: pool value r -> 2r, a value strictly between r-1 and r -> 2r-1 *)
let dbl (x : z itv) : z itv =
  let d v = Z.mul (z_of_int 2) v in { x with ia = d x.ia; ib = d x.ib }
let pick_field (s : z itv list option) (got : string) : string =
  match s with
  | None -> "ABORT"
  | Some [] -> "-"
  | Some s ->
    (match int_of_string_opt got with
     | Some p -> if rk_pick_ok (List.map dbl s) (z_of_int p) then got else "NOT-IN-SET(" ^ got ^ ")"
     | None -> "NOT-A-POSITION(" ^ got ^ ")")

let split_on c s = String.split_on_char c s

let run_B probes_s s1s s2s cout =
  let probes = probes_of probes_s in
  let s1 = parse_set rank_ep s1s and s2 = parse_set rank_ep s2s in
  let isect = rk_intersect s1 s2 in
  let si = (match isect with Some (r, _) -> Some r | None -> None) in
  let su = rk_add minf pinf s1 s2 in
  let sv = rk_add minf pinf s2 s1 in
  let sa = rk_add minf pinf s1 s1 in
  let sk = (match rk_intersect s1 s1 with Some (r, _) -> Some r | None -> None) in
  let cm = String.concat "" (List.concat_map (fun i1 -> List.map (fun i2 ->
             match rk_cmp_with_intersect false i1 i2 with
             | Some (r, _) -> string_of_int (rel_code r) | None -> "A") s2) s1) in
  let picks = (match field cout "p:" with Some p -> split_on ',' p | None -> []) in
  let pk k s = (match List.nth_opt picks k with Some g -> pick_field s g | None -> "MISSING") in
  String.concat " " [
    "i:" ^ (match isect with Some (r, st) -> str_set r ^ ":" ^ string_of_int (status_code st) | None -> "ABORT");
    "j:" ^ str_oset si;
    "u:" ^ str_oset su;
    "v:" ^ str_oset sv;
    "a:" ^ str_oset sa;
    "k:" ^ str_oset sk;
    "w:" ^ str_oset su;
    "f:" ^ flags s1 ^ flags s2 ^ oflags si ^ oflags su;
    "m:" ^ sweep probes s1 ^ "," ^ sweep probes s2 ^ "," ^ osweep probes si ^ "," ^ osweep probes su;
    "c:" ^ cm;
    "t:" ^ hull s1 ^ "," ^ ohull su;
    "p:" ^ pk 0 (Some s1) ^ "," ^ pk 1 (Some s2) ^ "," ^ pk 2 si ^ "," ^ pk 3 su;
    "o:11" ]

let run_C i1s i2s =
  match parse_set rank_ep i1s, parse_set rank_ep i2s with
  | [i1], [i2] ->
    let code w = (match rk_cmp_with_intersect w i1 i2 with Some (r, _) -> string_of_int (rel_code r) | None -> "A") in
    let pout p0 = (match rk_cmp_with_intersect true i1 i2 with
                   | Some (_, Some p) -> str_itv p | Some (_, None) -> str_itv p0 | None -> "ABORT") in
    let zr = z_of_int zero_rank in
    let p0 = { ia = zr; ib = zr; ia_open = false; ib_open = false; ipt = true } in
    let q0 = { ia = minf; ib = pinf; ia_open = true; ib_open = true; ipt = false } in
    let all = List.init npool (fun i -> z_of_int i) in
    String.concat " " [
      "r:" ^ code false ^ code true ^ code true;
      "p:" ^ pout p0; "q:" ^ pout q0;
      "lb:" ^ sgnc (rk_cmp_lower_bounds i1 i2); "ub:" ^ sgnc (rk_cmp_upper_bounds i1 i2);
      "cv:" ^ String.concat "" (List.map (fun r -> sgnc (rk_cmp_value i1 r)) all);
      "in:" ^ String.concat "" (List.map (fun r -> string_of_bool01 (rk_cmp_value i2 r = Eq)) all);
      "pt:" ^ string_of_bool01 i1.ipt ^ string_of_bool01 i2.ipt ]
  | _ -> "BAD-CASE"

let run_Q ss cout =
  let s = parse_set lit_ep ss in
  let chk (sub : xq itv list) (got : string) : string =
    match value_ep got with
    | Some v -> if xs_pick_ok sub v then got else "BAD-PICK(" ^ got ^ ")"
    | None -> "BAD-PICK(" ^ got ^ ")" in
  let get pre = (match field cout pre with Some x -> x | None -> "MISSING") in
  String.concat " " [
    "ci:" ^ string_of_bool01 (xs_contains_int s);
    "cnt:" ^ string_of_z (xs_count_int s);
    "pi:" ^ string_of_bool01 (xs_is_point_int s);
    "ici:" ^ String.concat "" (List.map (fun x -> string_of_bool01 (itv_contains_int x)) s);
    "icnt:" ^ String.concat "," (List.map (fun x -> string_of_z (itv_count_int x)) s);
    "pk:" ^ (if s = [] then "-" else chk s (get "pk:"));
    "ipk:" ^ (if s = [] then "-" else
               let got = split_on ',' (get "ipk:") in
               if List.length got <> List.length s then "BAD-PICK-COUNT"
               else String.concat "," (List.map2 (fun x g -> chk [x] g) s got));
    "pf:" ^ (match s with [] -> "-" | x :: _ -> chk [x] (get "pf:")) ]

(* ---- A: sets with algebraic / mixed end points (valio tokens).  The end points' (is_integer, floor, ceiling)
   and all comparisons come from the exact reference RefAlg; the integer queries are the extracted [epi]
   programs (proved equal to the rational-end-point model), the picks are checked: member, and an integer
   whenever the set (interval) contains one. *)
exception Fuel
let afuel = nat_of_int 4000
let some_or_fuel = function Some x -> x | None -> raise Fuel

let parse_aset (s : string) : xval itv list =
  if s = "{}" then [] else
  List.map (fun t ->
    let n = String.length t in
    if n < 3 then raise (Bad t) else
    let ep x = snd (value_of_token x) in
    if t.[0] = '{' then
      let a = ep (String.sub t 1 (n - 2)) in
      { ia = a; ib = a; ia_open = false; ib_open = false; ipt = true }
    else begin
      let body = String.sub t 1 (n - 2) in
      match String.index_opt body '|' with
      | None -> raise (Bad t)
      | Some k ->
        let a = ep (String.sub body 0 k) and b = ep (String.sub body (k + 1) (String.length body - k - 1)) in
        { ia = a; ib = b; ia_open = (t.[0] = '('); ib_open = (t.[n - 1] = ')'); ipt = false }
    end) (String.split_on_char ';' s)

let epi_of_xval (v : xval) : epi =
  match v with
  | XFin x -> EPFin (some_or_fuel (rn_is_integer afuel x), some_or_fuel (rn_floor afuel x), some_or_fuel (rn_ceiling afuel x))
  | _ -> EPInf
let epi_of_itv (x : xval itv) : epi itv = { x with ia = epi_of_xval x.ia; ib = epi_of_xval x.ib }

let xcmp (a : xval) (b : xval) : comparison =
  match sgn_of_z (some_or_fuel (xv_cmp afuel a b)) with 0 -> Eq | s when s < 0 -> Lt | _ -> Gt

let xval_is_int (v : xval) : bool =
  match v with XFin x -> some_or_fuel (rn_is_integer afuel x) | _ -> false

let run_A ss cout =
  let s = parse_aset ss in
  let es = List.map epi_of_itv s in
  let chk (sub : xval itv list) (got : string) : string =
    match (try Some (snd (value_of_token got)) with Bad_value _ -> None) with
    | None -> "BAD-VALUE(" ^ got ^ ")"
    | Some v ->
      if not (List.exists (fun x -> itv_contains xcmp x v) sub) then "NOT-IN-SET(" ^ got ^ ")"
      else if es_contains_int (List.map epi_of_itv sub) && not (xval_is_int v) then "NOT-AN-INTEGER(" ^ got ^ ")"
      else got in
  let get pre = (match field cout pre with Some x -> x | None -> "MISSING") in
  String.concat " " [
    "ci:" ^ string_of_bool01 (es_contains_int es);
    "cnt:" ^ string_of_z (es_count_int es);
    "pi:" ^ string_of_bool01 (es_is_point_int es);
    "ici:" ^ String.concat "" (List.map (fun x -> string_of_bool01 (ei_contains_int x)) es);
    "icnt:" ^ String.concat "," (List.map (fun x -> string_of_z (ei_count_int x)) es);
    "pk:" ^ (if s = [] then "-" else chk s (get "pk:"));
    "ipk:" ^ (if s = [] then "-" else
               let got = split_on ';' (get "ipk:") in
               if List.length got <> List.length s then "BAD-PICK-COUNT"
               else String.concat ";" (List.map2 (fun x g -> chk [x] g) s got));
    "pf:" ^ (match s with [] -> "-" | x :: _ -> chk [x] (get "pf:")) ]

(* ---- S: intersection / union of two sets with valio-token end points.  The model runs on the reference numbers
   themselves (carrier xval, comparison xv_cmp of RefAlg; the theorems of C13 hold for every totally ordered carrier).
   libpoly's result sets are read back from their tokens and must equal the model's interval by interval (same flags,
   same is_point, end points equal as numbers); integer queries and picks of the results as in A. *)
let same_set (a : xval itv list) (b : xval itv list) : bool =
  List.length a = List.length b &&
  List.for_all2 (fun x y ->
    x.ipt = y.ipt && x.ia_open = y.ia_open && x.ib_open = y.ib_open && xcmp x.ia y.ia = Eq &&
    (x.ipt || xcmp x.ib y.ib = Eq)) a b

let str_xitv (x : xval itv) : string =
  if x.ipt then "{" ^ string_of_xval x.ia ^ "}"
  else (if x.ia_open then "(" else "[") ^ string_of_xval x.ia ^ "|" ^ string_of_xval x.ib ^ (if x.ib_open then ")" else "]")
let str_xset (s : xval itv list) : string = if s = [] then "{}" else String.concat ";" (List.map str_xitv s)

let run_S s1s s2s cout =
  let s1 = parse_aset s1s and s2 = parse_aset s2s in
  let get pre = (match field cout pre with Some x -> x | None -> "MISSING") in
  let isect = fs_intersect xcmp s1 s2 in
  let su = fs_add xcmp XMinf XPinf s1 s2 and sv = fs_add xcmp XMinf XPinf s2 s1 in
  (* libpoly's set text is echoed when it denotes the model's list *)
  let set_field pre (m : xval itv list option) : string =
    match m with
    | None -> "ABORT"
    | Some m ->
      let got = get pre in
      (match (try Some (parse_aset got) with Bad_value _ | Bad _ -> None) with
       | Some g when same_set g m -> got
       | _ -> "EXPECTED(" ^ str_xset m ^ ")") in
  let queries (m : xval itv list option) : string =
    match m with
    | None -> "ABORT"
    | Some m ->
      let es = List.map epi_of_itv m in
      String.concat "," [
        string_of_bool01 (es_contains_int es); string_of_z (es_count_int es); string_of_bool01 (es_is_point_int es);
        String.concat "" (List.map (fun x -> string_of_bool01 (ei_contains_int x)) es);
        String.concat "+" (List.map (fun x -> string_of_z (ei_count_int x)) es) ] in
  let pick pre (m : xval itv list option) : string =
    match m with
    | None -> "ABORT"
    | Some [] -> "-"
    | Some m ->
      let got = get pre in
      (match (try Some (snd (value_of_token got)) with Bad_value _ -> None) with
       | None -> "BAD-VALUE(" ^ got ^ ")"
       | Some v ->
         if not (List.exists (fun x -> itv_contains xcmp x v) m) then "NOT-IN-SET(" ^ got ^ ")"
         else if es_contains_int (List.map epi_of_itv m) && not (xval_is_int v) then "NOT-AN-INTEGER(" ^ got ^ ")"
         else got) in
  let xflags = function
    | None -> "ABORT"
    | Some m -> string_of_bool01 (fs_is_empty m) ^ string_of_bool01 (fs_is_full xcmp XMinf XPinf m) ^ string_of_bool01 (fs_is_point m) in
  let ends (s : xval itv list) = List.concat_map (fun x -> [x.ia; x.ib]) s in
  let sweep = function
    | None -> "ABORT"
    | Some m -> String.concat "" (List.map (fun v ->
        match fs_contains xcmp m v with Some b -> string_of_bool01 b | None -> "A") (ends s1 @ ends s2)) in
  let si = (match isect with Some (r, _) -> Some r | None -> None) in
  String.concat " " [
    "i:" ^ set_field "i:" si;
    "st:" ^ (match isect with Some (_, st) -> string_of_int (status_code st) | None -> "ABORT");
    "u:" ^ set_field "u:" su;
    "v:" ^ set_field "v:" sv;
    "f:" ^ xflags si ^ xflags su;
    "q1:" ^ queries (Some s1); "q2:" ^ queries (Some s2);
    "qi:" ^ queries si; "qu:" ^ queries su;
    "ki:" ^ pick "ki:" si; "ku:" ^ pick "ku:" su;
    "m:" ^ sweep si ^ "," ^ sweep su ]

let run (toks : string list) (cout : string list) : string =
  try
    match toks with
    | ["B"; pr; s1; s2] -> run_B pr s1 s2 cout
    | ["C"; i1; i2] -> run_C i1 i2
    | ["Q"; s] -> run_Q s cout
    | ["A"; s] -> (try run_A s cout with Fuel -> "FUEL" | Bad_value m -> "BAD-CASE " ^ m)
    | ["S"; s1; s2] -> (try run_S s1 s2 cout with Fuel -> "FUEL" | Bad_value m -> "BAD-CASE " ^ m)
    | ["POOL"] -> string_of_int npool
    | _ -> "UNKNOWN-OP"
  with Bad s -> "BAD-CASE " ^ s
