(* C10 model driver.  ev: the reference value Model.mp_eval_rn at the parsed values decides sign, constraint
   truth values (through the model of lp_sign_condition_consistent) and, BY DENOTATION, the evaluation result and
   the unchanged assignment.  er / rlb / sc: the faithful models, compared exactly. *)
open Model
open Io

let fuel = nat_of_int 4000
let sg x = string_of_int (sgn_of_z x)

let rec drop n l = if n <= 0 then l else match l with [] -> [] | _ :: t -> drop (n - 1) t
let rec take n l = if n <= 0 then [] else match l with [] -> [] | h :: t -> h :: take (n - 1) t

(* split the C output at "|" *)
let split_bar (l : string list) : string list list =
  let rec go cur acc = function
    | [] -> List.rev (List.rev cur :: acc)
    | "|" :: t -> go [] (List.rev cur :: acc) t
    | h :: t -> go (h :: cur) acc t in
  go [] [] l

let rat_of_value_token tok : (z * z) option =
  match String.split_on_char ':' tok with
  | ["z"; a] -> Some (z_of_string a, z_of_int 1)
  | ["d"; s] -> Some (rat_of_dy_string s)
  | ["q"; s] -> Some (rat_of_q_string s)
  | _ -> None

let bits_of_sign (s : z) : string =
  String.concat "" (List.map (fun c -> string_of_bool01 (constraint_evaluate c s)) sc_all)

(* per-case time limit of the reference computation (the resultant-based oracle explodes on unlucky degree
   combinations): checked at the end of every major GC cycle; a timeout is reported as FUEL, never as a verdict *)
exception Timeout
let deadline = ref infinity
let time_limit = 15.0
let _ = Gc.create_alarm (fun () -> if Sys.time () > !deadline then (deadline := infinity; raise Timeout))

(* n:<k>:<coeffs>:<lo>:<hi> (harness/c10.c): the number a:<coeffs>:<lo>:<hi> held with the defining polynomial k*f *)
let unscale tok =
  if String.length tok > 2 && tok.[0] = 'n' && tok.[1] = ':' then
    (match String.split_on_char ':' tok with
     | "n" :: _k :: rest -> String.concat ":" ("a" :: rest)
     | _ -> tok)
  else tok

let rec run (toks : string list) (cout : string list) : string =
  let toks = List.map unscale toks in
  deadline := Sys.time () +. time_limit;
  let r = (try run1 toks cout with Timeout -> "FUEL timeout") in
  deadline := infinity; r
and run1 (toks : string list) (cout : string list) : string =
  match toks with
  | "ev" :: _mode :: perm :: ps :: vals ->
    let n = String.length perm in
    let p = mpoly_of_string ps in
    let vals = Array.of_list (take n vals) in
    let rn = Array.map (fun t -> if t = "none" then None else Some (rnum_of_token t)) vals in
    let rho (x : n) : rnum =
      let i = int_of_n x in
      if i < Array.length rn then (match rn.(i) with Some r -> r | None -> failwith "unassigned variable") else failwith "unassigned variable" in
    let vlist = List.concat (List.mapi (fun i r -> match r with Some r -> [(n_of_int i, r)] | None -> []) (Array.to_list rn)) in
    let vlist = List.filter (fun (x, _) -> List.exists (fun y -> y = x) (mp_vars p)) vlist in
    if List.length vlist < List.length (mp_vars p) then "SKIP unassigned variable" else
    (* rational values are eliminated first (cheap), then the algebraic ones *)
    let vlist = List.filter (fun (_, r) -> match r with RQ _ -> true | _ -> false) vlist
              @ List.filter (fun (_, r) -> match r with RQ _ -> false | _ -> true) vlist in
    let refv = ref_eval fuel vlist p in
    (* sanity of the oracle itself: on small cases the term-by-term reference RefAlg.mp_eval_rn must agree *)
    let cross =
      match refv with
      | Some v when List.length p <= 2
                    && List.fold_left (fun acc (_, r) -> acc * (match r with RQ _ -> 1 | RA (f, _, _) -> int_of_nat (pdeg f))) 1 vlist <= 6 ->
        let saved = !deadline in
        deadline := Sys.time () +. 0.5;
        let ok = (try
          (match mp_eval_rn fuel rho p with
           | Some v' -> (match rn_cmp fuel v v' with Some c when sgn_of_z c <> 0 -> false | _ -> true)
           | None -> true) with Timeout -> true) in
        deadline := saved; ok
      | _ -> true in
    if not cross then "MODEL-ERROR the two reference evaluations disagree" else
    (match refv with
     | None -> "FUEL"
     | Some v ->
       let s = rn_sgn v in
       (match split_bar cout with
        | [[s1; s2; bits; s3; cval]; post; [pafter]] ->
          let exp_s = sg s in
          let all_rat = List.for_all (fun (_, r) -> match r with RQ _ -> true | _ -> false) vlist
                        && Array.for_all (fun t -> t = "none" || (t.[0] = 'z' || t.[0] = 'd' || t.[0] = 'q')) vals in
          let model_numeric =
            if not all_rat then None else
            let order = List.rev (List.map (fun c -> n_of_int (Char.code c - 48)) (List.init n (String.get perm))) in
            let mm (x : n) = let i = int_of_n x in if i < Array.length vals then rat_of_value_token vals.(i) else None in
            Some (coef_sgn_numeric order mm p) in
          if (match model_numeric with Some None -> true | _ -> false) then "CHECK fail: model coef_sgn_numeric took no numeric exit on a rational assignment"
          else if (match model_numeric with Some (Some ms) -> sg ms <> s1 | _ -> false) then "CHECK fail: model coef_sgn_numeric disagrees with lp_polynomial_sgn = " ^ s1
          else
          if s1 <> exp_s then "CHECK fail: lp_polynomial_sgn = " ^ s1 ^ ", sign of the exact value " ^ string_of_rnum v ^ " is " ^ exp_s
          else if s2 <> exp_s then "CHECK fail: lp_assignment_sgn = " ^ s2 ^ ", expected " ^ exp_s
          else if s3 <> exp_s then "CHECK fail: second lp_polynomial_sgn = " ^ s3 ^ ", expected " ^ exp_s
          else if bits <> bits_of_sign s then "CHECK fail: constraint_evaluate bits " ^ bits ^ ", expected " ^ bits_of_sign s
          else
            (match (try Ok (rnum_of_token cval) with Bad_value m -> Error m) with
             | Error m -> "CHECK fail: evaluation result is not a valid value: " ^ m
             | Ok cv ->
               (match rn_cmp fuel v cv with
                | None -> "FUEL"
                | Some c when sgn_of_z c <> 0 -> "CHECK fail: evaluation result " ^ cval ^ " differs from the exact value " ^ string_of_rnum v
                | Some _ ->
                  if List.length post <> n then "CHECK fail: assignment printed with wrong length"
                  else
                    let bad = ref "" in
                    List.iteri (fun i t ->
                      if !bad = "" then
                        match rn.(i) with
                        | None -> if t <> "none" then bad := "variable " ^ string_of_int i ^ " became assigned"
                        | Some r ->
                          (match (try Ok (rnum_of_token t) with Bad_value m -> Error m) with
                           | Error m -> bad := "value of x" ^ string_of_int i ^ " is no longer valid: " ^ m
                           | Ok r' ->
                             (match rn_cmp fuel r r' with
                              | Some c when sgn_of_z c = 0 -> ()
                              | None -> bad := "FUEL"
                              | Some _ -> bad := "value of x" ^ string_of_int i ^ " changed: " ^ vals.(i) ^ " -> " ^ t))) post;
                    if !bad = "FUEL" then "FUEL"
                    else if !bad <> "" then "CHECK fail: " ^ !bad
                    else if pafter <> string_of_mpoly p then "CHECK fail: polynomial changed: " ^ pafter
                    else "CHECK ok"))
        | _ -> "CHECK fail: malformed output"))
  | "er" :: perm :: ps :: vals ->
    let n = String.length perm in
    let p = mpoly_of_string ps in
    let vals = Array.of_list (take n vals) in
    (* top variable first *)
    let order = List.rev (List.map (fun c -> n_of_int (Char.code c - 48)) (List.init n (String.get perm))) in
    let m (x : n) : (z * z) option =
      let i = int_of_n x in
      if i < Array.length vals then rat_of_value_token vals.(i) else None in
    let (c, mult) = eval_rat order m p in
    string_of_mpoly c ^ " " ^ string_of_z mult
  | "va" :: perm :: ps :: vals ->
    (* coefficient_value_approx: the model (C15 interval arithmetic, same aliasing) on the intervals the C side printed *)
    let n = String.length perm in
    let p = mpoly_of_string ps in
    let order = List.rev (List.map (fun c -> n_of_int (Char.code c - 48)) (List.init n (String.get perm))) in
    let parse_ri tok =
      match String.split_on_char ':' tok with
      | [a; b; ao; bo; pt] -> { ia = rat_of_q_string a; ib = rat_of_q_string b; ia_open = (ao = "1"); ib_open = (bo = "1"); ipt = (pt = "1") }
      | _ -> failwith "bad interval" in
    let str_ri i =
      let q (r : z * z) = string_of_z (fst r) ^ "/" ^ string_of_z (snd r) in
      q i.ia ^ ":" ^ (if i.ipt then "0/1" else q i.ib) ^ ":" ^ string_of_bool01 i.ia_open ^ ":" ^ string_of_bool01 i.ib_open ^ ":" ^ string_of_bool01 i.ipt in
    (match split_bar cout with
     | [ivs; [res]] when List.length ivs = n ->
       let ivs = Array.of_list ivs in
       let m (x : n) = let i = int_of_n x in if i < n && ivs.(i) <> "none" then parse_ri ivs.(i) else ri_zero in
       (* the intervals of the variables must contain the assigned values *)
       let bad = ref "" in
       List.iteri (fun i t ->
         if !bad = "" && t <> "none" && ivs.(i) <> "none" then begin
           let iv = parse_ri ivs.(i) and v = rnum_of_token t in
           let inside =
             if iv.ipt then sgn_of_z (rn_cmp_q v iv.ia) = 0
             else (let c = sgn_of_z (rn_cmp_q v iv.ia) in c > 0 || (c = 0 && not iv.ia_open))
                  && (let c = sgn_of_z (rn_cmp_q v iv.ib) in c < 0 || (c = 0 && not iv.ib_open)) in
           if not inside then bad := "interval of x" ^ string_of_int i ^ " does not contain its value"
         end) (take n vals);
       if !bad <> "" then "CHECK fail: " ^ !bad
       else
         let mine = str_ri (value_approx order m p) in
         if mine = res then "CHECK ok" else "CHECK fail: coefficient_value_approx = " ^ res ^ ", model " ^ mine
     | _ -> "CHECK fail: malformed output")
  | ["rlb"; cs] -> string_of_z (root_lower_bound (upoly_of_string cs))
  | ["sc"; c; s] -> string_of_bool01 (sc_consistent (sc_of_N (n_of_string c)) (z_of_string s))
  | _ -> "UNKNOWN-OP"
