#!/usr/bin/env python3
"""Regenerates /verif/MANIFEST.json from the table below (kept valid at all times)."""
import json, os, sys
HERE = os.path.dirname(os.path.dirname(os.path.abspath(__file__)))
ALL = ["C%02d" % i for i in range(1, 21)]

import glob
CHECKS = {}
for f in sorted(glob.glob(os.path.join(HERE, "manifest.d", "C*.json"))):
    CHECKS[os.path.basename(f)[:-5]] = json.load(open(f))

NOT_YET = "check not built yet at this commit (work in progress; see DESIGN.md section 9 build order)"

def main():
    checks = []
    for pid in ALL:
        if pid not in CHECKS:
            continue
        c = CHECKS[pid]
        # the evidence file records the level of gen/<P>.py; it must be the category claimed here (vp check compares them)
        import re
        g = os.path.join(HERE, "gen", pid + ".py")
        if os.path.exists(g):
            m = re.search(r'^LEVEL\s*=\s*"(\w+)"', open(g).read(), re.M)
            if m and m.group(1) != c["category"]:
                sys.exit("mkmanifest: gen/%s.py LEVEL = %s but manifest.d/%s.json category = %s" % (pid, m.group(1), pid, c["category"]))
        checks.append({
            "property_id": pid,
            "quick_cmd": "./check %s --tier quick" % pid,
            "thorough_cmd": "./check %s --tier thorough" % pid,
            "evidence_file": "evidence/%s.json" % pid,
            "replay_cmd_template": "./check %s --replay {path}" % pid,
            "engine": "rocq-model-correspondence",
            "level_claimed": {"category": c["category"], "text": c["text"], "design_ref": "DESIGN.md section " + c["design"]},
            "level_note": c["note"],
            "technique": c["technique"],
        })
    m = {
        "version": 1,
        "setup_cmd": "./setup.sh",
        "hooks": {
            "guard": "LIBPOLY_VERIF",
            "enable": "checks compile /repo/src/*.c themselves with -DLIBPOLY_VERIF -fsanitize=address,undefined (lib/vlib.py build_clib)",
            "baseline_off_cmd": "cmake --build /repo/_build && ctest --test-dir /repo/_build -j8 --timeout 900",
            "source_commits": HOOK_COMMITS,
            "add_only": True,
        },
        "engines": [{"name": "rocq-model-correspondence", "path": "check",
                     "serves_properties": [c["property_id"] for c in checks],
                     "kind_free_text": "Coq 8.16.1 theorems over hand-written executable Gallina models (coq/), extraction to OCaml, "
                                       "differential correspondence against an ASan+UBSan build of /repo's working tree"}],
        "checks": checks,
        "notes": "Defects of the pinned tree found by these checks are repaired by 'fix:' commits in /repo and listed in known_findings.txt "
                 "(fixed: lines suppress nothing). See DESIGN.md.",
        "not_applicable": [{"property_id": p, "reason": NA.get(p, NOT_YET)} for p in ALL if p not in CHECKS],
    }
    json.dump(m, open(os.path.join(HERE, "MANIFEST.json"), "w"), indent=1)
    try:
        import jsonschema
        jsonschema.validate(m, json.load(open("/root/.vp/MANIFEST.schema.json")))
        print("MANIFEST.json valid;", len(checks), "checks")
    except ImportError:
        print("MANIFEST.json written (jsonschema not available to validate)")

HOOK_COMMITS = json.load(open(os.path.join(HERE, "manifest.d", "hooks.json"))) if os.path.exists(os.path.join(HERE, "manifest.d", "hooks.json")) else []
NA = json.load(open(os.path.join(HERE, "manifest.d", "not_applicable.json"))) if os.path.exists(os.path.join(HERE, "manifest.d", "not_applicable.json")) else {}
if __name__ == "__main__":
    main()
