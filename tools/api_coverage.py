#!/usr/bin/env python3
"""Which public libpoly C functions (declared in /repo/include/*.h) are called by at least one /verif harness?"""
import re, glob, sys, os
root = os.path.dirname(os.path.dirname(os.path.abspath(__file__)))
hdirs = sys.argv[1:] or [os.path.join(root, "harness")]
decl = {}
for h in glob.glob("/repo/include/*.h"):
    for m in re.finditer(r"\b(lp_[a-z_0-9]+)\s*\(", open(h).read()):
        decl.setdefault(m.group(1), os.path.basename(h))
used = set()
for d in hdirs:
    for f in glob.glob(os.path.join(d, "*.[ch]")):
        used |= set(re.findall(r"\b(lp_[a-z_0-9]+)\s*\(", open(f).read()))
un = sorted(n for n in decl if n not in used)
by = {}
for n in un:
    by.setdefault(decl[n], []).append(n)
print("public functions: %d, called by a harness: %d, not called: %d" % (len(decl), len([n for n in decl if n in used]), len(un)))
for h in sorted(by):
    print("  %-28s %s" % (h, " ".join(by[h])))
