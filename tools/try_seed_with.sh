#!/bin/bash
# try_seed_with.sh <seed id under seeded/> <check ...>: run other properties' quick checks against a kept seed
# (scratch worktree of /repo HEAD + patch, VERIF_REPO); evidence files are restored afterwards.
V=$(cd "$(dirname "$0")/.." && pwd); id=$1; shift
wt=/tmp/tsw-$$; git -C /repo worktree add -q --detach $wt HEAD || exit 2
cp /repo/include/version.h $wt/include/ 2>/dev/null
trap 'git -C /repo worktree remove --force '$wt' >/dev/null 2>&1; git -C /repo worktree prune' EXIT
git -C $wt apply $V/seeded/$id/patch.diff || { echo "patch does not apply"; exit 2; }
for c in "$@"; do
  cp $V/evidence/$c.json /tmp/tsw-ev-$$.json 2>/dev/null
  out=$(cd $V && VERIF_REPO=$wt timeout 3000 ./check $c --tier quick 2>&1); rc=$?
  n=$(echo "$out" | grep -c "^VIOLATION")
  # a run that was aborted (timeout, build error, protocol error) must not read as "0 VIOLATION lines = missed"
  if echo "$out" | grep -q "^\[verif\] $c quick:"; then fin=complete; else fin="INCOMPLETE(exit=$rc)"; fi
  cp /tmp/tsw-ev-$$.json $V/evidence/$c.json 2>/dev/null; rm -f /tmp/tsw-ev-$$.json
  echo "seed $id check $c: $n VIOLATION lines [$fin exit=$rc]"
done
