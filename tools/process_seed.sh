#!/bin/bash
# process_seed.sh <PROP> <srcdir with patch.diff demo.c|demo.cpp meta.json> <dest id>
# Confirms a seeded change in a scratch worktree of /repo (baseline demo passes; with the patch: builds, ctest passes, demo
# fails), then runs ./check <PROP> --tier quick against that worktree (VERIF_REPO) and keeps the seed under seeded/<dest id>
# with the outcome.  Nothing is applied to /repo itself; the evidence file of the property is restored afterwards.
set -u
P=$1; d=$(cd "$2" && pwd); id=$3
V=$(cd "$(dirname "$0")/.." && pwd)
wt=/tmp/ps-seed-$$
git -C /repo worktree add -q --detach $wt HEAD || exit 2
cp /repo/include/version.h $wt/include/ 2>/dev/null
trap 'git -C /repo worktree remove --force '$wt' >/dev/null 2>&1; git -C /repo worktree prune' EXIT
san=$(python3 -c "import json,sys; print(1 if json.load(open('$d/meta.json')).get('needs_sanitizer') else 0)" 2>/dev/null || echo 0)
if [ "$san" = "1" ]; then SANFLAGS="-fsanitize=address -fno-omit-frame-pointer -g"; else SANFLAGS=""; fi
build() { cmake -G Ninja -S $wt -B $wt/_b -DCMAKE_BUILD_TYPE=Release -DCMAKE_C_FLAGS="$SANFLAGS" -DCMAKE_CXX_FLAGS="$SANFLAGS" >/dev/null 2>&1 && cmake --build $wt/_b 2>&1 | tail -1; }
demo() {
  if [ -f $d/demo.cpp ]; then g++ -std=c++11 -w $SANFLAGS -I$wt/include -I$wt/src $d/demo.cpp $wt/_b/src/libpolyxx.a $wt/_b/src/libpoly.a -lgmp -lm -o $wt/_b/demo 2>&1 | tail -3
  else gcc -std=gnu99 -w $SANFLAGS -I$wt/include -I$wt/src $d/demo.c $wt/_b/src/libpoly.a -lgmp -lm -o $wt/_b/demo 2>&1 | tail -3; fi
  (cd $wt && ASAN_OPTIONS=detect_leaks=${LEAKS:-0} timeout 300 ./_b/demo >/dev/null 2>&1); echo $?; }
build >/dev/null
r0=$(demo | tail -1)
git -C $wt apply $d/patch.diff || { echo "$id: patch does not apply"; exit 2; }
b=$(build)
t=$(ASAN_OPTIONS=detect_leaks=0 ctest --test-dir $wt/_b -j8 2>&1 | grep -c "100% tests passed")
r1=$(demo | tail -1)
if [ "$r0" = "0" ] && [ "$t" = "1" ] && [ "$r1" != "0" ]; then :; else echo "$id: NOT-CONFIRMED baseline_demo_exit=$r0 tests_pass=$t patched_demo_exit=$r1 build='$b'"; exit 1; fi
rm -rf $wt/_b
cp $V/evidence/$P.json /tmp/ps-ev-$$.json 2>/dev/null
n=$(cd $V && VERIF_REPO=$wt timeout 3000 ./check $P --tier quick 2>&1 | grep -c "^VIOLATION")
cp /tmp/ps-ev-$$.json $V/evidence/$P.json 2>/dev/null; rm -f /tmp/ps-ev-$$.json
if [ "$n" -gt 0 ]; then caught="$P quick"; else caught=MISSED; fi
SEED_CONFIRM="tools/process_seed.sh: scratch worktree of /repo HEAD; baseline demo exits 0; with patch.diff applied the library builds, ctest passes 14/14 and the demo exits $r1 (sanitizer build: $san). Then VERIF_REPO=<that worktree> ./check $P --tier quick: $n VIOLATION lines." \
  python3 $V/tools/keep_seed.py $P $d $id "$caught" >/dev/null
echo "$id: confirmed, check $P quick: $n VIOLATION lines ($caught)"
