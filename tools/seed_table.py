#!/usr/bin/env python3
"""Writes docs/SEEDED.md: which check catches which seeded change (from seeded/*/meta.json)."""
import json, glob, os
root = os.path.dirname(os.path.dirname(os.path.abspath(__file__)))
rows = []
for f in sorted(glob.glob(os.path.join(root, "seeded", "*", "meta.json"))):
    m = json.load(open(f)); sid = os.path.basename(os.path.dirname(f))
    rows.append((sid, m.get("property", "?"), (m.get("what") or "").replace("|", "/").replace("\n", " ")[:230],
                 (m.get("needs") or "").replace("|", "/").replace("\n", " ")[:200],
                 ", ".join(m.get("caught_by") or []) or "MISSED", (m.get("lead_note") or "").replace("|", "/")[:300]))
out = ["# Seeded changes (independent sub-agents, property text only) and the checks that catch them", "",
       "Each change compiles, passes libpoly's own 14 ctest tests, and breaks the property only for specific inputs/sequences.",
       "Confirmed by `tools/confirm_seed.sh` (scratch worktree: baseline demo passes; with the patch the library builds, ctest passes, the demo fails),",
       "then applied to /repo (`git -C /repo apply`), checked, and undone (`git -C /repo checkout -- .`).", "",
       "| id | property | change | needs | caught by | note |", "|---|---|---|---|---|---|"]
for r in rows:
    out.append("| %s | %s | %s | %s | %s | %s |" % r)
caught = sum(1 for r in rows if r[4] != "MISSED")
out += ["", "%d seeded changes kept, %d caught by the listed checks, %d currently missed." % (len(rows), caught, len(rows) - caught)]
open(os.path.join(root, "docs", "SEEDED.md"), "w").write("\n".join(out) + "\n")
print(len(rows), "rows;", caught, "caught")
