#!/usr/bin/env python3
"""coverage.py [--tier quick] [PROP ...]: which lines of libpoly do the correspondence runs execute?

Builds libpoly from the working tree of /repo (or $VERIF_REPO) with gcc --coverage (AddressSanitizer only because three harnesses call its interface), builds every C
harness against it, feeds each the corpus + the generated cases of its property (the C side only: no model), then
runs gcov and writes docs/COVERAGE.md: per source file the executed/total lines and the functions never entered or
barely covered.  A diagnostic for the generators (a branch no case reaches is tied to the model by reading only);
it is not part of any check.  Scratch files live under build/cov (git-ignored) and are removed at the end."""
import sys, os, re, glob, json, random, shutil, subprocess, importlib, time
HERE = os.path.dirname(os.path.dirname(os.path.abspath(__file__)))
sys.path.insert(0, os.path.join(HERE, "lib")); sys.path.insert(0, os.path.join(HERE, "gen"))
import vlib

def sh(cmd, **kw):
    p = subprocess.run(cmd, stdout=subprocess.PIPE, stderr=subprocess.STDOUT, text=True, **kw)
    return p.returncode, p.stdout

def main():
    args = [a for a in sys.argv[1:] if not a.startswith("--")]
    tier = "quick"
    if "--tier" in sys.argv:
        tier = sys.argv[sys.argv.index("--tier") + 1]; args = [a for a in args if a != tier]
    props = args or ["C%02d" % i for i in range(1, 21)]
    cov = os.path.join(vlib.BUILD, "cov"); shutil.rmtree(cov, ignore_errors=True); os.makedirs(cov)
    src = os.path.join(vlib.REPO, "src"); inc = os.path.join(vlib.REPO, "include")
    flags = ["-std=gnu99", "-O0", "-g", "--coverage", "-fsanitize=address", "-DHAVE_OPEN_MEMSTREAM", "-D" + vlib.GUARD, "-I" + inc, "-I" + src]
    procs = []; objs = []
    for s in vlib.C_SOURCES:
        o = os.path.join(cov, s.replace("/", "_")[:-2] + ".o"); objs.append(o)
        procs.append(subprocess.Popen(["gcc"] + flags + ["-c", os.path.join(src, s), "-o", o], stdout=subprocess.PIPE, stderr=subprocess.STDOUT, text=True))
    for p in procs:
        o, _ = p.communicate()
        if p.returncode: print(o[-2000:]); sys.exit(2)
    ran = {}
    for prop in props:
        try:
            G = importlib.import_module(prop)
        except Exception as e:
            print("skip", prop, e); continue
        harness = getattr(G, "HARNESS", prop.lower())
        srcf = os.path.join(HERE, "harness", harness + ".c")
        if not os.path.exists(srcf):
            print("skip", prop, "(no C harness", harness, ")"); continue
        exe = os.path.join(cov, "drv_" + harness)
        if not os.path.exists(exe):
            rc, o = sh(["gcc"] + flags + ["-I" + os.path.join(HERE, "harness"), srcf] + objs + ["-lgmp", "-lm", "-o", exe])
            if rc: print("harness", harness, "does not build for coverage:", o[-1500:]); continue
        rng = random.Random(1 * 1000003 + (0 if tier == "quick" else 7919))
        cases = []
        cp = os.path.join(HERE, "corpus", prop + ".txt")
        if os.path.exists(cp):
            cases = [l.rstrip("\n") for l in open(cp) if l.strip() and not l.startswith("#")]
        cases += list(G.generate(rng, tier))
        t0 = time.time()
        outs, crashes, _ = vlib.run_driver(exe, getattr(G, "C_ARGS", []), cases, timeout=getattr(G, "TIMEOUT", 1500))
        ran[prop] = (len(cases), len(crashes), time.time() - t0)
        print("%s: %d cases, %d crashes, %.0fs" % (prop, len(cases), len(crashes), time.time() - t0), flush=True)
    # gcov
    rows = []; funcs = []
    for s in vlib.C_SOURCES:
        o = os.path.join(cov, s.replace("/", "_")[:-2] + ".o")
        rc, out = sh(["gcov", "-f", "-b", "-o", o, os.path.join(src, s)], cwd=cov)
        gf0 = os.path.join(cov, os.path.basename(s) + ".gcov")
        if os.path.exists(gf0):
            os.replace(gf0, os.path.join(cov, s.replace("/", "_") + ".gcov"))
        cur = None
        for line in out.splitlines():
            m = re.match(r"Function '(.*)'", line)
            if m: cur = ("F", m.group(1)); continue
            m = re.match(r"File '(.*)'", line)
            if m: cur = ("S", m.group(1)); continue
            m = re.match(r"Lines executed:([\d.]+)% of (\d+)", line)
            if m and cur:
                pct, n = float(m.group(1)), int(m.group(2))
                if cur[0] == "F": funcs.append((s, cur[1], pct, n))
                elif cur[1].endswith(s): rows.append((s, pct, n))
                cur = None
    # uncovered executable lines per source file (compact ranges), for reading next to the source
    unc = {}
    for s in vlib.C_SOURCES:
        gf = os.path.join(cov, s.replace("/", "_") + ".gcov")
        if not os.path.exists(gf):
            continue
        miss = []
        for line in open(gf, errors="replace"):
            m = re.match(r"\s*(#####|=====):\s*(\d+):(.*)", line)
            if m and not re.search(r"assert\(|TRACE|tracef|trace_is_enabled", m.group(3)):
                miss.append(int(m.group(2)))
        rngs = []
        for n in miss:
            if rngs and n <= rngs[-1][1] + 2: rngs[-1][1] = n
            else: rngs.append([n, n])
        unc[s] = ["%d" % a if a == b else "%d-%d" % (a, b) for a, b in rngs]
    rows.sort(key=lambda r: r[1])
    md = ["# Line coverage of libpoly by the correspondence runs (`tools/coverage.py`, tier %s)" % tier, "",
          "Union over the C drivers of %s (corpus + generated cases, seed 1); gcc --coverage, -O0." % ", ".join(sorted(ran)), "",
          "| source file | lines | executed |", "|---|---|---|"]
    tot = sum(n for _, _, n in rows); ex = sum(p * n / 100.0 for _, p, n in rows)
    for s, p, n in rows:
        md.append("| src/%s | %d | %.1f%% |" % (s, n, p))
    md.append("| **all** | %d | **%.1f%%** |" % (tot, 100.0 * ex / max(1, tot)))
    md += ["", "## Functions never entered (0% of their lines; printers/tracing excluded)", ""]
    skip = re.compile(r"print|to_string|trace|stats|output_|_dump")
    for s, f, p, n in sorted(funcs):
        if p == 0.0 and n >= 3 and not skip.search(f):
            md.append("- `%s` (src/%s, %d lines)" % (f, s, n))
    md += ["", "## Functions with less than 60% of their lines executed (>= 10 lines)", ""]
    for s, f, p, n in sorted(funcs, key=lambda x: x[2]):
        if 0.0 < p < 60.0 and n >= 10 and not skip.search(f):
            md.append("- `%s` (src/%s): %.0f%% of %d lines" % (f, s, p, n))
    md += ["", "## Unexecuted line ranges (assert/trace lines ignored)", ""]
    for s in sorted(unc):
        if unc[s] and not re.search(r"output|debug_trace|statistics|u_memstream|poly\.c$", s):
            md.append("- src/%s: %s" % (s, " ".join(unc[s])))
    open(os.path.join(HERE, "docs", "COVERAGE.md"), "w").write("\n".join(md) + "\n")
    print("docs/COVERAGE.md written: %.1f%% of %d lines" % (100.0 * ex / max(1, tot), tot))
    shutil.rmtree(cov, ignore_errors=True)

if __name__ == "__main__":
    main()
