#!/usr/bin/env python3
"""keep_seed.py <PROP> <srcdir with patch.diff demo.c meta.json> <dest id> <caught-by: comma list or 'MISSED'> [note]
Copies a confirmed seeded change into /verif/seeded/<id>/ and records what was run."""
import sys, os, json, shutil
prop, src, sid, caught = sys.argv[1:5]
note = sys.argv[5] if len(sys.argv) > 5 else ""
root = os.path.dirname(os.path.dirname(os.path.abspath(__file__)))
dst = os.path.join(root, "seeded", sid)
os.makedirs(dst, exist_ok=True)
for f in os.listdir(src):
    if f.endswith((".diff", ".c", ".cpp", ".txt", ".json", ".sh", ".py")):
        shutil.copy(os.path.join(src, f), dst)
m = json.load(open(os.path.join(dst, "meta.json"))) if os.path.exists(os.path.join(dst, "meta.json")) else {}
m["property"] = prop
m["confirmed_by_lead"] = os.environ.get("SEED_CONFIRM",
    "tools/confirm_seed.sh in a scratch worktree of /repo: baseline demo exits 0; with patch.diff applied the library builds, "
    "ctest passes and the demo exits non-zero. Then `git -C /repo apply patch.diff; ./check %s --tier quick; "
    "git -C /repo checkout -- .`." % prop)
m["caught_by"] = caught.split(",") if caught != "MISSED" else []
m["missed"] = caught == "MISSED"
if note:
    m["lead_note"] = note
json.dump(m, open(os.path.join(dst, "meta.json"), "w"), indent=1)
print("kept", dst)
