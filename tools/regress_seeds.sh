#!/bin/bash
# regress_seeds.sh <log file> P...: re-run every kept seed of the given properties against the current quick check
# (scratch worktree of /repo + patch, VERIF_REPO; see try_seed_with.sh); one line per seed is appended to the log.
# tools/regress_table.py turns the logs into docs/SEED_REGRESSION.md.
V=$(cd "$(dirname "$0")/.." && pwd); log=$1; shift
for P in "$@"; do
  for d in $(ls -d $V/seeded/$P-* | sort -t- -k2 -n); do
    id=$(basename $d)
    echo "$(date -u +%FT%TZ) seed=${VERIF_SEED:-1} $($V/tools/try_seed_with.sh $id $P 2>&1 | tail -1)" >> $log
  done
done
