#!/bin/bash
# confirm_seed.sh <dir with patch.diff and demo.c> [extra gcc flags]
# In a scratch worktree of /repo: baseline build + demo must pass; with the patch: build, ctest must pass, demo must fail.
set -u
d=$(cd "$1" && pwd); shift
wt=/tmp/confirm-seed-$$
git -C /repo worktree add -q --detach $wt HEAD || exit 2
trap 'git -C /repo worktree remove --force '$wt' >/dev/null 2>&1' EXIT
# SAN=1: the demo needs a sanitizer build of the library (tests are still run on it)
if [ "${SAN:-0}" = "1" ]; then SANFLAGS="-fsanitize=address -fno-omit-frame-pointer -g"; else SANFLAGS=""; fi
build() { cmake -G Ninja -S $wt -B $wt/_b -DCMAKE_BUILD_TYPE=Release -DCMAKE_C_FLAGS="$SANFLAGS" -DCMAKE_CXX_FLAGS="$SANFLAGS" >/dev/null 2>&1 && cmake --build $wt/_b 2>&1 | tail -1; }
demo() { gcc -std=gnu99 -w $SANFLAGS "$@" -I$wt/include -I$wt/src $d/demo.c $wt/_b/src/libpoly.a -lgmp -lm -o $wt/_b/demo 2>&1 | tail -3; (cd $wt && timeout 120 ./_b/demo >/dev/null 2>&1); echo $?; }
build >/dev/null
r0=$(demo "$@" | tail -1)
git -C $wt apply $d/patch.diff || { echo "patch does not apply"; exit 2; }
b=$(build)
t=$(ASAN_OPTIONS=detect_leaks=0 ctest --test-dir $wt/_b -j8 2>&1 | grep -c "100% tests passed")
r1=$(demo "$@" | tail -1)
echo "baseline_demo_exit=$r0 patched_build='$b' tests_pass=$t patched_demo_exit=$r1"
[ "$r0" = "0" ] && [ "$t" = "1" ] && [ "$r1" != "0" ] && echo CONFIRMED || echo NOT-CONFIRMED
