#!/bin/bash
# try_seeds.sh <PROP> [check-prop ...]: apply each /tmp/seedout/<PROP>/k/patch.diff to /repo, run the listed checks (default: PROP), undo.
P=$1; shift; checks=${@:-$P}
for k in 1 2 3 4 5 6; do
  d=/tmp/seedout/$P/$k; [ -f $d/patch.diff ] || continue
  if git -C /repo apply $d/patch.diff 2>/dev/null; then
    for c in $checks; do
      n=$(cd /verif && ./check $c --tier quick 2>&1 | grep -c "^VIOLATION")
      echo "seed $P-$k check $c: $n violation lines"
    done
    git -C /repo checkout -- .
  else echo "seed $P-$k: patch does not apply"; fi
done
