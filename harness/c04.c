/* C04 driver: resultants, principal subresultant coefficients, subresultants through the public API
 * (lp_polynomial_resultant / lp_polynomial_psc / lp_polynomial_subres), results as canonical polyio text.
 *
 *   sr V P Q [extra tokens ignored by the C side]
 *        V = index of the main variable (put on top of the variable order: all other variables below, by index),
 *        P, Q = polynomials (polyio text) both of degree >= 1 in xV.
 *     prints   R r_fresh r_used r_aliasA r_aliasB  PSC n p_0 .. p_{n-1}  PSCU n ...  SUB n s_0 .. s_{n-1}  SUBU n ...
 *        (n = min(deg P, deg Q) + 1; the ...U lists were computed into pre-used output polynomials)
 *   srp M V P Q   the same in a polynomial context over Z_M, M prime (coefficients printed in the symmetric range)
 *   disc V P      the computation of polyxx discriminant(): div(resultant(P, dP/dxV), lc(P)), "1" for degree 1
 */
#include "polyio.h"
#include <unistd.h>
#define CASE_SECONDS 20

static void set_top(int v) {
  int perm[PIO_NV]; int n = 0;
  for (int i = 0; i < PIO_NV; ++i) if (i != v) perm[n++] = i;
  perm[n++] = v;
  pio_set_order(perm, n);
}

static void print_list(const char* tag, lp_polynomial_t** l, size_t n) {
  printf(" %s %zu", tag, n);
  for (size_t i = 0; i < n; ++i) { putchar(' '); pio_print(l[i]); }
}

static const lp_polynomial_context_t* g_ctx;   /* context of the current case: pio_ctx (over Z) or one over Z_p */
static lp_polynomial_t* cnew(const char* s) { lp_polynomial_t* p = lp_polynomial_new(g_ctx); pio_parse_ctx(g_ctx, p, s); return p; }

static lp_polynomial_t** new_list(size_t n, const char* init) {
  lp_polynomial_t** l = malloc(n * sizeof(lp_polynomial_t*));
  for (size_t i = 0; i < n; ++i) l[i] = init ? cnew(init) : lp_polynomial_new(g_ctx);
  return l;
}
static void del_list(lp_polynomial_t** l, size_t n) {
  for (size_t i = 0; i < n; ++i) lp_polynomial_delete(l[i]);
  free(l);
}

/* resultant / psc / subres of P, Q (texts) in the context g_ctx with x_v on top */
static void do_sr(int v, const char* ptxt, const char* qtxt) {
  set_top(v);
  lp_polynomial_t* P = cnew(ptxt);
  lp_polynomial_t* Q = cnew(qtxt);
  if (lp_polynomial_is_constant(P) || lp_polynomial_is_constant(Q) ||
      lp_polynomial_top_variable(P) != pio_x[v] || lp_polynomial_top_variable(Q) != pio_x[v]) {
    printf("UNKNOWN not in the domain");
    lp_polynomial_delete(P); lp_polynomial_delete(Q); return;
  }
  size_t dp = lp_polynomial_degree(P), dq = lp_polynomial_degree(Q);
  size_t n = (dp < dq ? dp : dq) + 1;
  /* resultant: fresh, pre-used, aliased with either operand */
  printf("R ");
  { lp_polynomial_t* r = lp_polynomial_new(g_ctx); lp_polynomial_resultant(r, P, Q); pio_print(r); lp_polynomial_delete(r); }
  putchar(' ');
  { lp_polynomial_t* r = cnew("7*x0^2*x1^1+-3*x2^3+11"); lp_polynomial_resultant(r, P, Q); pio_print(r); lp_polynomial_delete(r); }
  putchar(' ');
  { lp_polynomial_t* r = lp_polynomial_new_copy(P); lp_polynomial_resultant(r, r, Q); pio_print(r); lp_polynomial_delete(r); }
  putchar(' ');
  { lp_polynomial_t* r = lp_polynomial_new_copy(Q); lp_polynomial_resultant(r, P, r); pio_print(r); lp_polynomial_delete(r); }
  /* psc */
  { lp_polynomial_t** l = new_list(n, NULL); lp_polynomial_psc(l, P, Q); print_list("PSC", l, n); del_list(l, n); }
  { lp_polynomial_t** l = new_list(n, "5*x0^3*x2^1+-2*x1^2+9"); lp_polynomial_psc(l, P, Q); print_list("PSCU", l, n); del_list(l, n); }
  /* subresultants */
  { lp_polynomial_t** l = new_list(n, NULL); lp_polynomial_subres(l, P, Q); print_list("SUB", l, n); del_list(l, n); }
  { lp_polynomial_t** l = new_list(n, "4*x0^1*x1^1*x2^1+-6*x0^5+1"); lp_polynomial_subres(l, P, Q); print_list("SUBU", l, n); del_list(l, n); }
  lp_polynomial_delete(P); lp_polynomial_delete(Q);
}

int main(void) {
  pio_init(lp_Z);
  while (next_case()) {
    /* watchdog: a case that does not finish kills the driver (reported as a crash on that case; the runner restarts) */
    alarm(CASE_SECONDS);
    g_ctx = pio_ctx;
    if (vntok == 0) { end_case(); continue; }
    if (is_op("sr") && vntok >= 4) {
      do_sr(atoi(vtok[1]), vtok[2], vtok[3]);
      end_case(); continue;
    }
    if (is_op("srp") && vntok >= 5) {
      /* srp M V P Q : the same in a context over Z_M (M prime) */
      lp_integer_t M; mpz_init_set_str(&M, vtok[1], 10);
      lp_int_ring_t* K = lp_int_ring_create(&M, mpz_probab_prime_p(&M, 25) ? 1 : 0);
      mpz_clear(&M);
      lp_polynomial_context_t* ctx = lp_polynomial_context_new(K, pio_db, pio_order);
      g_ctx = ctx;
      do_sr(atoi(vtok[2]), vtok[3], vtok[4]);
      g_ctx = pio_ctx;
      lp_polynomial_context_detach(ctx);
      lp_int_ring_detach(K);
      end_case(); continue;
    }
    if (is_op("disc") && vntok >= 3) {
      int v = atoi(vtok[1]);
      set_top(v);
      lp_polynomial_t* P = pio_new(vtok[2]);
      if (lp_polynomial_is_constant(P) || lp_polynomial_top_variable(P) != pio_x[v]) {
        printf("UNKNOWN not in the domain"); lp_polynomial_delete(P); end_case(); continue;
      }
      if (lp_polynomial_degree(P) == 1) { printf("1"); lp_polynomial_delete(P); end_case(); continue; }
      lp_polynomial_t* D = lp_polynomial_new(pio_ctx);
      lp_polynomial_t* R = lp_polynomial_new(pio_ctx);
      lp_polynomial_t* L = lp_polynomial_new(pio_ctx);
      lp_polynomial_derivative(D, P);
      lp_polynomial_resultant(R, P, D);
      lp_polynomial_get_coefficient(L, P, lp_polynomial_degree(P));
      lp_polynomial_div(R, R, L);
      pio_print(R);
      lp_polynomial_delete(D); lp_polynomial_delete(R); lp_polynomial_delete(L); lp_polynomial_delete(P);
      end_case(); continue;
    }
    printf("UNKNOWN op");
    end_case();
  }
  free(pio_terms);
  pio_done();
  free(vline);
  return 0;
}
