/* C04 driver: resultants, principal subresultant coefficients, subresultants through the public API
 * (lp_polynomial_resultant / lp_polynomial_psc / lp_polynomial_subres), results as canonical polyio text.
 *
 *   sr V P Q [extra tokens ignored by the C side]
 *        V = index of the main variable (put on top of the variable order: all other variables below, by index),
 *        P, Q = polynomials (polyio text) both of degree >= 1 in xV.
 *     prints   R r_fresh r_used r_aliasA r_aliasB  PSC n p_0 .. p_{n-1}  PSCU n ...  SUB n s_0 .. s_{n-1}  SUBU n ...
 *        (n = min(deg P, deg Q) + 1; the ...U lists were computed into pre-used output polynomials)
 *     every operation gets at least one operand that no API call has touched since it was built (see do_sr; this is
 *     what makes the VERIF_STALE=1 re-run of `check` meaningful: "first operation on an external polynomial after a
 *     change of the variable order")
 *   srp M V P Q   the same in a polynomial context over Z_M, M prime (coefficients printed in the symmetric range)
 *   disc V P      the computation of polyxx discriminant(): div(resultant(P, dP/dxV), lc(P)), "1" for degree 1
 */
#include "polyio.h"
#include <unistd.h>
#define CASE_SECONDS 20

static void set_top(int v) {
  int perm[PIO_NV]; int n = 0;
  for (int i = 0; i < PIO_NV; ++i) if (i != v) perm[n++] = i;
  perm[n++] = v;
  pio_set_order(perm, n);
}

static void print_list(const char* tag, lp_polynomial_t** l, size_t n) {
  printf(" %s %zu", tag, n);
  for (size_t i = 0; i < n; ++i) { putchar(' '); pio_print(l[i]); }
}

static const lp_polynomial_context_t* g_ctx;   /* context of the current case: pio_ctx (over Z) or one over Z_p */
static lp_polynomial_t* cnew(const char* s) { lp_polynomial_t* p = lp_polynomial_new(g_ctx); pio_parse_ctx(g_ctx, p, s); return p; }
/* OPERAND of the current context.  With VERIF_STALE=1 it is what pio_new makes in the global context: built under the
 * REVERSED variable order, marked external, handed out after the order has been restored (every context of this driver
 * shares pio_order), i.e. an external polynomial still laid out for a previous order that no API call has touched. */
static lp_polynomial_t* cnew_op(const char* s) {
  if (pio_stale < 0) { const char* e = getenv("VERIF_STALE"); pio_stale = (e && e[0] == '1') ? 1 : 0; }
  if (pio_stale) lp_variable_order_reverse(pio_order);
  lp_polynomial_t* p = cnew(s);
  if (pio_stale) { lp_polynomial_set_external(p); lp_variable_order_reverse(pio_order); }
  return p;
}

static lp_polynomial_t** new_list(size_t n, const char* init) {
  lp_polynomial_t** l = malloc(n * sizeof(lp_polynomial_t*));
  for (size_t i = 0; i < n; ++i) l[i] = init ? cnew(init) : lp_polynomial_new(g_ctx);
  return l;
}
static void del_list(lp_polynomial_t** l, size_t n) {
  for (size_t i = 0; i < n; ++i) lp_polynomial_delete(l[i]);
  free(l);
}

/* resultant / psc / subres of P, Q (texts) in the context g_ctx with x_v on top.
 * P, Q are "touched" operands (the domain test below has brought them into the current order).  Every operation is ALSO
 * called on operands that no API call has touched since they were built: with VERIF_STALE=1 those are external
 * polynomials still laid out for another order and the operation itself has to re-order them - BOTH of them, whichever
 * of the two is untouched, also when the output aliases one of them.  The printed results do not depend on any of this. */
static void do_sr(int v, const char* ptxt, const char* qtxt) {
  set_top(v);
  lp_polynomial_t* P = cnew_op(ptxt);
  lp_polynomial_t* Q = cnew_op(qtxt);
  if (lp_polynomial_is_constant(P) || lp_polynomial_is_constant(Q) ||
      lp_polynomial_top_variable(P) != pio_x[v] || lp_polynomial_top_variable(Q) != pio_x[v]) {
    printf("UNKNOWN not in the domain");
    lp_polynomial_delete(P); lp_polynomial_delete(Q); return;
  }
  size_t dp = lp_polynomial_degree(P), dq = lp_polynomial_degree(Q);
  size_t n = (dp < dq ? dp : dq) + 1;
  /* resultant: fresh, pre-used, aliased with either operand */
  printf("R ");
  /* both operands untouched, fresh output */
  { lp_polynomial_t* Pf = cnew_op(ptxt); lp_polynomial_t* Qf = cnew_op(qtxt);
    lp_polynomial_t* r = lp_polynomial_new(g_ctx); lp_polynomial_resultant(r, Pf, Qf); pio_print(r); lp_polynomial_delete(r);
    lp_polynomial_delete(Pf); lp_polynomial_delete(Qf); }
  putchar(' ');
  /* only the SECOND operand untouched, pre-used output (itself an untouched operand-like polynomial) */
  { lp_polynomial_t* Qf = cnew_op(qtxt);
    lp_polynomial_t* r = cnew_op("7*x0^2*x1^1+-3*x2^3+11"); lp_polynomial_resultant(r, P, Qf); pio_print(r); lp_polynomial_delete(r);
    lp_polynomial_delete(Qf); }
  putchar(' ');
  /* output aliased with the first operand, which is untouched; second operand touched */
  { lp_polynomial_t* r = cnew_op(ptxt); lp_polynomial_resultant(r, r, Q); pio_print(r); lp_polynomial_delete(r); }
  putchar(' ');
  /* output aliased with the second operand; both untouched */
  { lp_polynomial_t* Pf = cnew_op(ptxt); lp_polynomial_t* r = cnew_op(qtxt);
    lp_polynomial_resultant(r, Pf, r); pio_print(r); lp_polynomial_delete(r); lp_polynomial_delete(Pf); }
  /* psc: both untouched / only the first untouched */
  { lp_polynomial_t* Pf = cnew_op(ptxt); lp_polynomial_t* Qf = cnew_op(qtxt);
    lp_polynomial_t** l = new_list(n, NULL); lp_polynomial_psc(l, Pf, Qf); print_list("PSC", l, n); del_list(l, n);
    lp_polynomial_delete(Pf); lp_polynomial_delete(Qf); }
  { lp_polynomial_t* Pf = cnew_op(ptxt);
    lp_polynomial_t** l = new_list(n, "5*x0^3*x2^1+-2*x1^2+9"); lp_polynomial_psc(l, Pf, Q); print_list("PSCU", l, n); del_list(l, n);
    lp_polynomial_delete(Pf); }
  /* subresultants: both untouched / only the second untouched */
  { lp_polynomial_t* Pf = cnew_op(ptxt); lp_polynomial_t* Qf = cnew_op(qtxt);
    lp_polynomial_t** l = new_list(n, NULL); lp_polynomial_subres(l, Pf, Qf); print_list("SUB", l, n); del_list(l, n);
    lp_polynomial_delete(Pf); lp_polynomial_delete(Qf); }
  { lp_polynomial_t* Qf = cnew_op(qtxt);
    lp_polynomial_t** l = new_list(n, "4*x0^1*x1^1*x2^1+-6*x0^5+1"); lp_polynomial_subres(l, P, Qf); print_list("SUBU", l, n); del_list(l, n);
    lp_polynomial_delete(Qf); }
  lp_polynomial_delete(P); lp_polynomial_delete(Q);
}

int main(void) {
  pio_init(lp_Z);
  while (next_case()) {
    /* watchdog: a case that does not finish kills the driver (reported as a crash on that case; the runner restarts) */
    alarm(CASE_SECONDS);
    g_ctx = pio_ctx;
    if (vntok == 0) { end_case(); continue; }
    if (is_op("sr") && vntok >= 4) {
      do_sr(atoi(vtok[1]), vtok[2], vtok[3]);
      end_case(); continue;
    }
    if (is_op("srp") && vntok >= 5) {
      /* srp M V P Q : the same in a context over Z_M (M prime) */
      lp_integer_t M; mpz_init_set_str(&M, vtok[1], 10);
      lp_int_ring_t* K = lp_int_ring_create(&M, mpz_probab_prime_p(&M, 25) ? 1 : 0);
      mpz_clear(&M);
      lp_polynomial_context_t* ctx = lp_polynomial_context_new(K, pio_db, pio_order);
      g_ctx = ctx;
      do_sr(atoi(vtok[2]), vtok[3], vtok[4]);
      g_ctx = pio_ctx;
      lp_polynomial_context_detach(ctx);
      lp_int_ring_detach(K);
      end_case(); continue;
    }
    if (is_op("disc") && vntok >= 3) {
      int v = atoi(vtok[1]);
      set_top(v);
      lp_polynomial_t* P = pio_new(vtok[2]);
      if (lp_polynomial_is_constant(P) || lp_polynomial_top_variable(P) != pio_x[v]) {
        printf("UNKNOWN not in the domain"); lp_polynomial_delete(P); end_case(); continue;
      }
      if (lp_polynomial_degree(P) == 1) { printf("1"); lp_polynomial_delete(P); end_case(); continue; }
      lp_polynomial_t* D = lp_polynomial_new(pio_ctx);
      lp_polynomial_t* R = lp_polynomial_new(pio_ctx);
      lp_polynomial_t* L = lp_polynomial_new(pio_ctx);
      lp_polynomial_derivative(D, P);
      lp_polynomial_resultant(R, P, D);
      lp_polynomial_get_coefficient(L, P, lp_polynomial_degree(P));
      lp_polynomial_div(R, R, L);
      pio_print(R);
      lp_polynomial_delete(D); lp_polynomial_delete(R); lp_polynomial_delete(L); lp_polynomial_delete(P);
      end_case(); continue;
    }
    printf("UNKNOWN op");
    end_case();
  }
  free(pio_terms);
  pio_done();
  free(vline);
  return 0;
}
