/* C15 driver: interval arithmetic never loses a point.
 *   rational_interval_* / dyadic_interval_* (internal, src/interval/arithmetic.h), lp_interval_add/mul/pow/sgn,
 *   lp_sign_condition_consistent_interval, lp_polynomial_interval_value.
 * Every operation with an output operand is run with a fresh, a pre-used and an aliased output.
 * SEMANTIC monitor: the case line carries witness points of the operands (after `W`); the driver computes
 * x+y, x*y, x^n, p(x) directly with GMP and asks the library's own `contains` on the library's result:
 * `lost=k` counts the witnesses that are not in the result.
 *
 * scalars:   rational n/d   dyadic a@n (= a/2^n)   value i:z | d:a@n | q:n/d | -inf | +inf
 * intervals: P x   |   I a_open a b_open b
 * a-operations (aadd amul apow apoly): end points of EVERY value kind, written as the tokens of valio.h
 *   (z: d:a/n q:n/d r:<poly>:<k> -inf +inf); the witnesses after W are (x y z) / (x z) / (point z) with z the
 *   claimed exact value of x o y as a token: the driver asks lp_interval_contains(result, z); the model side
 *   verifies with the exact reference arithmetic that z really is x o y and that x, y lie in the operands.
 */
#include "common.h"
#include "valio.h"
#include <signal.h>
#include <setjmp.h>
#include <limits.h>
#include <interval.h>
#include <rational_interval.h>
#include <dyadic_interval.h>
#include <value.h>
#include <sign_condition.h>
#include <polynomial.h>
#include <polynomial_context.h>
#include <variable_db.h>
#include <variable_order.h>
#include <assignment.h>
#include "number/rational.h"
#include "number/dyadic_rational.h"
#include "interval/arithmetic.h"

static int pos;
static const char* tk(void) { if (pos >= vntok) { return ""; } return vtok[pos++]; }
static int peek_is(const char* s) { return pos < vntok && strcmp(vtok[pos], s) == 0; }
static void expect(const char* s) { if (peek_is(s)) pos++; }

/* ---------------------------------------------------------------- scalars */
static void get_q(mpq_t q) { mpq_init(q); mpq_set_str(q, tk(), 10); mpq_canonicalize(q); }
static void get_dy_str(lp_dyadic_rational_t* d, const char* t) {
  char buf[4096]; strncpy(buf, t, sizeof(buf) - 1); buf[sizeof(buf) - 1] = 0;
  char* at = strchr(buf, '@'); unsigned long n = 0;
  if (at) { *at = 0; n = strtoul(at + 1, NULL, 10); }
  lp_dyadic_rational_construct(d); mpz_set_str(&d->a, buf, 10); d->n = n;
}
static void get_dy(lp_dyadic_rational_t* d) { get_dy_str(d, tk()); }
static void get_val(lp_value_t* v) {
  const char* t = tk();
  if (strcmp(t, "-inf") == 0) { lp_value_construct(v, LP_VALUE_MINUS_INFINITY, 0); return; }
  if (strcmp(t, "+inf") == 0) { lp_value_construct(v, LP_VALUE_PLUS_INFINITY, 0); return; }
  if (t[0] == 'i') { lp_integer_t z; mpz_init_set_str(&z, t + 2, 10); lp_value_construct(v, LP_VALUE_INTEGER, &z); mpz_clear(&z); return; }
  if (t[0] == 'q') { mpq_t q; mpq_init(q); mpq_set_str(q, t + 2, 10); mpq_canonicalize(q); lp_value_construct(v, LP_VALUE_RATIONAL, q); mpq_clear(q); return; }
  if (t[0] == 'd') { lp_dyadic_rational_t d; get_dy_str(&d, t + 2);
                     lp_value_construct(v, LP_VALUE_DYADIC_RATIONAL, &d); lp_dyadic_rational_destruct(&d); return; }
  lp_value_construct(v, LP_VALUE_NONE, 0);
}
static void put_q(const mpq_t q) { print_z(mpq_numref(q)); putchar('/'); print_z(mpq_denref(q)); }
static void put_dy(const lp_dyadic_rational_t* d) { print_z(&d->a); printf("@%lu", d->n); }
static void put_val(const lp_value_t* v) {
  switch (v->type) {
  case LP_VALUE_NONE: printf("none"); break;
  case LP_VALUE_MINUS_INFINITY: printf("-inf"); break;
  case LP_VALUE_PLUS_INFINITY: printf("+inf"); break;
  case LP_VALUE_INTEGER: printf("i:"); print_z(&v->value.z); break;
  case LP_VALUE_DYADIC_RATIONAL: printf("d:"); put_dy(&v->value.dy_q); break;
  case LP_VALUE_RATIONAL: printf("q:"); put_q(&v->value.q); break;
  default: printf("algebraic"); break;
  }
}

/* ---------------------------------------------------------------- intervals */
static void get_ri(lp_rational_interval_t* I) {
  const char* k = tk();
  if (k[0] == 'P') { mpq_t a; get_q(a); lp_rational_interval_construct_point(I, a); mpq_clear(a); }
  else { int ao = atoi(tk()); mpq_t a, b; get_q(a); int bo = atoi(tk()); get_q(b);
         lp_rational_interval_construct(I, a, ao, b, bo); mpq_clear(a); mpq_clear(b); }
}
static void put_ri(const lp_rational_interval_t* I) {
  if (I->is_point) { printf("P "); put_q(&I->a); if (I->a_open || I->b_open) printf(" FLAGS%d%d", (int) I->a_open, (int) I->b_open); }
  else { printf("I %d ", (int) I->a_open); put_q(&I->a); printf(" %d ", (int) I->b_open); put_q(&I->b); }
}
static void get_di(lp_dyadic_interval_t* I) {
  const char* k = tk();
  if (k[0] == 'P') { lp_dyadic_rational_t a; get_dy(&a); lp_dyadic_interval_construct_point(I, &a); lp_dyadic_rational_destruct(&a); }
  else { int ao = atoi(tk()); lp_dyadic_rational_t a, b; get_dy(&a); int bo = atoi(tk()); get_dy(&b);
         lp_dyadic_interval_construct(I, &a, ao, &b, bo); lp_dyadic_rational_destruct(&a); lp_dyadic_rational_destruct(&b); }
}
static void put_di(const lp_dyadic_interval_t* I) {
  if (I->is_point) { printf("P "); put_dy(&I->a); if (I->a_open || I->b_open) printf(" FLAGS%d%d", (int) I->a_open, (int) I->b_open); }
  else { printf("I %d ", (int) I->a_open); put_dy(&I->a); printf(" %d ", (int) I->b_open); put_dy(&I->b); }
}
static void get_vi(lp_interval_t* I) {
  const char* k = tk();
  if (k[0] == 'P') { lp_value_t a; get_val(&a); lp_interval_construct_point(I, &a); lp_value_destruct(&a); }
  else { int ao = atoi(tk()); lp_value_t a, b; get_val(&a); int bo = atoi(tk()); get_val(&b);
         lp_interval_construct(I, &a, ao, &b, bo); lp_value_destruct(&a); lp_value_destruct(&b); }
}
static void put_vi(const lp_interval_t* I) {
  if (I->is_point) { printf("P "); put_val(&I->a); if (I->a_open || I->b_open) printf(" FLAGS%d%d", (int) I->a_open, (int) I->b_open); }
  else { printf("I %d ", (int) I->a_open); put_val(&I->a); printf(" %d ", (int) I->b_open); put_val(&I->b); }
}

/* ---------------------------------------------------------------- rational intervals */
typedef void (*rbin_f)(lp_rational_interval_t*, const lp_rational_interval_t*, const lp_rational_interval_t*);
static unsigned g_n;
static void r_pow1(lp_rational_interval_t* P, const lp_rational_interval_t* I) { rational_interval_pow(P, I, g_n); }
typedef void (*run_f)(lp_rational_interval_t*, const lp_rational_interval_t*);

static void mpq_pow_ui(mpq_t r, const mpq_t x, unsigned n) {
  mpz_pow_ui(mpq_numref(r), mpq_numref(x), n); mpz_pow_ui(mpq_denref(r), mpq_denref(x), n); mpq_canonicalize(r);
}

static void run_rbin(rbin_f f, char kind) {
  lp_rational_interval_t I1, I2, U, r;
  get_ri(&I1); get_ri(&I2); expect("U"); get_ri(&U); expect("W");
  lp_rational_interval_construct_zero(&r); f(&r, &I1, &I2); put_ri(&r);
  int lost = 0;
  while (pos + 1 < vntok) {
    mpq_t x, y, z; get_q(x); get_q(y); mpq_init(z);
    if (kind == '+') mpq_add(z, x, y); else if (kind == '-') mpq_sub(z, x, y); else mpq_mul(z, x, y);
    if (!lp_rational_interval_contains_rational(&r, z)) lost++;
    mpq_clear(x); mpq_clear(y); mpq_clear(z);
  }
  lp_rational_interval_destruct(&r);
  printf(" ; "); f(&U, &I1, &I2); put_ri(&U); lp_rational_interval_destruct(&U);
  { lp_rational_interval_t a; lp_rational_interval_construct_copy(&a, &I1); f(&a, &a, &I2); printf(" ; "); put_ri(&a); lp_rational_interval_destruct(&a); }
  { lp_rational_interval_t b; lp_rational_interval_construct_copy(&b, &I2); f(&b, &I1, &b); printf(" ; "); put_ri(&b); lp_rational_interval_destruct(&b); }
  printf(" ; lost=%d", lost);
  lp_rational_interval_destruct(&I1); lp_rational_interval_destruct(&I2);
}
static void run_run(run_f f, char kind) {
  lp_rational_interval_t I, U, r;
  if (kind == '^') g_n = (unsigned) strtoul(tk(), NULL, 10);
  get_ri(&I); expect("U"); get_ri(&U); expect("W");
  lp_rational_interval_construct_zero(&r); f(&r, &I); put_ri(&r);
  int lost = 0;
  while (pos < vntok) {
    mpq_t x, z; get_q(x); mpq_init(z);
    if (kind == '^') mpq_pow_ui(z, x, g_n); else mpq_neg(z, x);
    if (!lp_rational_interval_contains_rational(&r, z)) lost++;
    mpq_clear(x); mpq_clear(z);
  }
  lp_rational_interval_destruct(&r);
  printf(" ; "); f(&U, &I); put_ri(&U); lp_rational_interval_destruct(&U);
  { lp_rational_interval_t a; lp_rational_interval_construct_copy(&a, &I); f(&a, &a); printf(" ; "); put_ri(&a); lp_rational_interval_destruct(&a); }
  printf(" ; lost=%d", lost);
  lp_rational_interval_destruct(&I);
}

/* ---------------------------------------------------------------- dyadic intervals */
typedef void (*dbin_f)(lp_dyadic_interval_t*, const lp_dyadic_interval_t*, const lp_dyadic_interval_t*);
static void d_pow1(lp_dyadic_interval_t* P, const lp_dyadic_interval_t* I) { dyadic_interval_pow(P, I, g_n); }
typedef void (*dun_f)(lp_dyadic_interval_t*, const lp_dyadic_interval_t*);

static void run_dbin(dbin_f f, char kind) {
  lp_dyadic_interval_t I1, I2, U, r;
  get_di(&I1); get_di(&I2); expect("U"); get_di(&U); expect("W");
  lp_dyadic_interval_construct_zero(&r); f(&r, &I1, &I2); put_di(&r);
  int lost = 0;
  while (pos + 1 < vntok) {
    lp_dyadic_rational_t x, y, z; get_dy(&x); get_dy(&y); lp_dyadic_rational_construct(&z);
    if (kind == '+') lp_dyadic_rational_add(&z, &x, &y); else if (kind == '-') lp_dyadic_rational_sub(&z, &x, &y); else lp_dyadic_rational_mul(&z, &x, &y);
    if (!lp_dyadic_interval_contains_dyadic_rational(&r, &z)) lost++;
    lp_dyadic_rational_destruct(&x); lp_dyadic_rational_destruct(&y); lp_dyadic_rational_destruct(&z);
  }
  lp_dyadic_interval_destruct(&r);
  printf(" ; "); f(&U, &I1, &I2); put_di(&U); lp_dyadic_interval_destruct(&U);
  { lp_dyadic_interval_t a; lp_dyadic_interval_construct_copy(&a, &I1); f(&a, &a, &I2); printf(" ; "); put_di(&a); lp_dyadic_interval_destruct(&a); }
  { lp_dyadic_interval_t b; lp_dyadic_interval_construct_copy(&b, &I2); f(&b, &I1, &b); printf(" ; "); put_di(&b); lp_dyadic_interval_destruct(&b); }
  printf(" ; lost=%d", lost);
  lp_dyadic_interval_destruct(&I1); lp_dyadic_interval_destruct(&I2);
}
static void run_dun(dun_f f, char kind) {
  lp_dyadic_interval_t I, U, r;
  if (kind == '^') g_n = (unsigned) strtoul(tk(), NULL, 10);
  get_di(&I); expect("U"); get_di(&U); expect("W");
  lp_dyadic_interval_construct_zero(&r); f(&r, &I); put_di(&r);
  int lost = 0;
  while (pos < vntok) {
    lp_dyadic_rational_t x, z; get_dy(&x); lp_dyadic_rational_construct(&z);
    if (kind == '^') lp_dyadic_rational_pow(&z, &x, g_n); else lp_dyadic_rational_neg(&z, &x);
    if (!lp_dyadic_interval_contains_dyadic_rational(&r, &z)) lost++;
    lp_dyadic_rational_destruct(&x); lp_dyadic_rational_destruct(&z);
  }
  lp_dyadic_interval_destruct(&r);
  printf(" ; "); f(&U, &I); put_di(&U); lp_dyadic_interval_destruct(&U);
  { lp_dyadic_interval_t a; lp_dyadic_interval_construct_copy(&a, &I); f(&a, &a); printf(" ; "); put_di(&a); lp_dyadic_interval_destruct(&a); }
  printf(" ; lost=%d", lost);
  lp_dyadic_interval_destruct(&I);
}

/* ---------------------------------------------------------------- value-level intervals */
typedef void (*vbin_f)(lp_interval_t*, const lp_interval_t*, const lp_interval_t*);
static int v_contains_q(const lp_interval_t* I, const mpq_t z) {
  lp_value_t v; lp_value_construct(&v, LP_VALUE_RATIONAL, z);
  int c = lp_interval_contains(I, &v); lp_value_destruct(&v); return c;
}
static void run_vbin(vbin_f f, char kind) {
  lp_interval_t I1, I2, U, r;
  get_vi(&I1); get_vi(&I2); expect("U"); get_vi(&U); expect("W");
  lp_interval_construct_full(&r); f(&r, &I1, &I2); put_vi(&r);
  int lost = 0;
  while (pos + 1 < vntok) {
    mpq_t x, y, z; get_q(x); get_q(y); mpq_init(z);
    if (kind == '+') mpq_add(z, x, y); else mpq_mul(z, x, y);
    if (!v_contains_q(&r, z)) lost++;
    mpq_clear(x); mpq_clear(y); mpq_clear(z);
  }
  lp_interval_destruct(&r);
  printf(" ; "); f(&U, &I1, &I2); put_vi(&U); lp_interval_destruct(&U);
  { lp_interval_t a; lp_interval_construct_copy(&a, &I1); f(&a, &a, &I2); printf(" ; "); put_vi(&a); lp_interval_destruct(&a); }
  { lp_interval_t b; lp_interval_construct_copy(&b, &I2); f(&b, &I1, &b); printf(" ; "); put_vi(&b); lp_interval_destruct(&b); }
  printf(" ; lost=%d", lost);
  lp_interval_destruct(&I1); lp_interval_destruct(&I2);
}
static void run_vpow(void) {
  lp_interval_t I, U, r;
  g_n = (unsigned) strtoul(tk(), NULL, 10); get_vi(&I); expect("U"); get_vi(&U); expect("W");
  lp_interval_construct_full(&r); lp_interval_pow(&r, &I, g_n); put_vi(&r);
  int lost = 0;
  while (pos < vntok) {
    mpq_t x, z; get_q(x); mpq_init(z); mpq_pow_ui(z, x, g_n);
    if (!v_contains_q(&r, z)) lost++;
    mpq_clear(x); mpq_clear(z);
  }
  lp_interval_destruct(&r);
  printf(" ; "); lp_interval_pow(&U, &I, g_n); put_vi(&U); lp_interval_destruct(&U);
  { lp_interval_t a; lp_interval_construct_copy(&a, &I); lp_interval_pow(&a, &a, g_n); printf(" ; "); put_vi(&a); lp_interval_destruct(&a); }
  printf(" ; lost=%d", lost);
  lp_interval_destruct(&I);
}


/* ---------------------------------------------------------------- value-level intervals, every value kind (valio.h tokens) */
static int a_bad;                                     /* a token could not be parsed */
static void get_ai(lp_interval_t* I) {
  const char* k = tk();
  if (k[0] == 'P') { lp_value_t a; if (!vio_parse(&a, tk())) { a_bad = 1; lp_value_construct_zero(&a); } lp_interval_construct_point(I, &a); lp_value_destruct(&a); }
  else { int ao = atoi(tk()); lp_value_t a, b;
         if (!vio_parse(&a, tk())) { a_bad = 1; lp_value_construct_zero(&a); }
         int bo = atoi(tk());
         if (!vio_parse(&b, tk())) { a_bad = 1; lp_value_construct_int(&b, 1000000); }
         lp_interval_construct(I, &a, ao, &b, bo); lp_value_destruct(&a); lp_value_destruct(&b); }
}
static void put_ai(const lp_interval_t* I) {
  if (I->is_point) { printf("P "); vio_print(&I->a); if (I->a_open || I->b_open) printf(" FLAGS%d%d", (int) I->a_open, (int) I->b_open); }
  else { printf("I %d ", (int) I->a_open); vio_print(&I->a); printf(" %d ", (int) I->b_open); vio_print(&I->b); }
}
static int a_contains_tok(const lp_interval_t* I, const char* tok) {
  lp_value_t v; if (!vio_parse(&v, tok)) { a_bad = 1; return 1; }
  int c = lp_interval_contains(I, &v); lp_value_destruct(&v); return c;
}
static void run_abin(vbin_f f) {
  lp_interval_t I1, I2, U, r;
  a_bad = 0;
  get_ai(&I1); get_ai(&I2); expect("U"); get_ai(&U); expect("W");
  lp_interval_construct_full(&r); f(&r, &I1, &I2); put_ai(&r);
  int lost = 0;
  while (pos + 2 < vntok) { tk(); tk(); if (!a_contains_tok(&r, tk())) lost++; }
  lp_interval_destruct(&r);
  printf(" ; "); f(&U, &I1, &I2); put_ai(&U); lp_interval_destruct(&U);
  { lp_interval_t a; lp_interval_construct_copy(&a, &I1); f(&a, &a, &I2); printf(" ; "); put_ai(&a); lp_interval_destruct(&a); }
  { lp_interval_t b; lp_interval_construct_copy(&b, &I2); f(&b, &I1, &b); printf(" ; "); put_ai(&b); lp_interval_destruct(&b); }
  printf(" ; lost=%d%s", lost, a_bad ? " BAD-TOKEN" : "");
  lp_interval_destruct(&I1); lp_interval_destruct(&I2);
}
static void run_apow(void) {
  lp_interval_t I, U, r;
  a_bad = 0;
  g_n = (unsigned) strtoul(tk(), NULL, 10); get_ai(&I); expect("U"); get_ai(&U); expect("W");
  lp_interval_construct_full(&r); lp_interval_pow(&r, &I, g_n); put_ai(&r);
  int lost = 0;
  while (pos + 1 < vntok) { tk(); if (!a_contains_tok(&r, tk())) lost++; }
  lp_interval_destruct(&r);
  printf(" ; "); lp_interval_pow(&U, &I, g_n); put_ai(&U); lp_interval_destruct(&U);
  { lp_interval_t a; lp_interval_construct_copy(&a, &I); lp_interval_pow(&a, &a, g_n); printf(" ; "); put_ai(&a); lp_interval_destruct(&a); }
  printf(" ; lost=%d%s", lost, a_bad ? " BAD-TOKEN" : "");
  lp_interval_destruct(&I);
}

static int sgn_q(const mpq_t q) { return mpq_sgn(q); }

/* ---------------------------------------------------------------- polynomials */
#define MAXV 8
static lp_variable_db_t* var_db; static lp_variable_order_t* var_order; static lp_polynomial_context_t* ctx;
static lp_variable_t vars[MAXV];

/* coefficient description in prefix form:  N z  |  R x k c_0 ... c_{k-1} ; builds the polynomial and evaluates it at pts */
static lp_polynomial_t* build_poly(int at) {            /* `at` = token position; returns the polynomial, advances pos */
  (void) at;
  const char* k = tk();
  lp_polynomial_t* p = lp_polynomial_new(ctx);
  if (k[0] == 'N') {
    lp_integer_t z; mpz_init_set_str(&z, tk(), 10);
    lp_polynomial_t* c = lp_polynomial_alloc(); lp_polynomial_construct_simple(c, ctx, &z, vars[0], 0);
    lp_polynomial_add(p, p, c); lp_polynomial_delete(c); mpz_clear(&z);
    return p;
  }
  int x = atoi(tk()); int n = atoi(tk());
  lp_integer_t one; mpz_init_set_si(&one, 1);
  for (int i = 0; i < n; i++) {
    lp_polynomial_t* ci = build_poly(0);
    lp_polynomial_t* xi = lp_polynomial_alloc(); lp_polynomial_construct_simple(xi, ctx, &one, vars[x], (unsigned) i);
    lp_polynomial_t* t = lp_polynomial_new(ctx);
    lp_polynomial_mul(t, ci, xi); lp_polynomial_add(p, p, t);
    lp_polynomial_delete(ci); lp_polynomial_delete(xi); lp_polynomial_delete(t);
  }
  mpz_clear(&one);
  return p;
}
/* evaluate the same description at a rational point with GMP only */
static void eval_desc(mpq_t out, const mpq_t* pt) {
  const char* k = tk();
  if (k[0] == 'N') { mpq_set_str(out, tk(), 10); return; }
  int x = atoi(tk()); int n = atoi(tk());
  mpq_set_si(out, 0, 1);
  mpq_t c, xp; mpq_init(c); mpq_init(xp);
  for (int i = 0; i < n; i++) {
    eval_desc(c, pt); mpq_pow_ui(xp, pt[x], (unsigned) i); mpq_mul(c, c, xp); mpq_add(out, out, c);
  }
  mpq_clear(c); mpq_clear(xp);
}
/* History of the interval assignment (lp_interval_assignment_reset): every variable first gets a decoy interval, the
   assignment is reset, and only then the intervals of the case are set; a variable whose interval is the whole line is
   left UNSET in every other case (unset = full by the API), so intervals that survive a reset become visible */
static unsigned ia_cases = 0;
static void ia_history(lp_interval_assignment_t* m, int nv) {
  for (int i = 0; i < nv; i++) {
    lp_value_t a, b; lp_value_construct_int(&a, 5 + i); lp_value_construct_int(&b, 6 + i);
    lp_interval_t D; lp_interval_construct(&D, &a, 0, &b, 0);
    lp_interval_assignment_set_interval(m, vars[i], &D);
    lp_interval_destruct(&D); lp_value_destruct(&a); lp_value_destruct(&b);
  }
  lp_interval_assignment_reset(m);
  ia_cases++;
}
static int ia_skip(const lp_interval_t* I) {
  return (ia_cases & 1) && !I->is_point && I->a.type == LP_VALUE_MINUS_INFINITY && I->b.type == LP_VALUE_PLUS_INFINITY;
}
static void run_poly(void) {
  int nv = atoi(tk());
  int desc = pos;
  lp_polynomial_t* p = build_poly(0);
  expect("A");
  lp_interval_assignment_t* m = lp_interval_assignment_new(var_db);
  ia_history(m, nv);
  for (int i = 0; i < nv; i++) { lp_interval_t I; get_vi(&I); if (!ia_skip(&I)) lp_interval_assignment_set_interval(m, vars[i], &I); lp_interval_destruct(&I); }
  expect("W");
  lp_interval_t r; lp_interval_construct_zero(&r);
  lp_polynomial_interval_value(p, m, &r);
  put_vi(&r);
  int lost = 0;
  while (pos + nv <= vntok) {
    mpq_t pt[MAXV], z; for (int i = 0; i < nv; i++) get_q(pt[i]);
    mpq_init(z); int save = pos; pos = desc; eval_desc(z, (const mpq_t*) pt); pos = save;
    if (!v_contains_q(&r, z)) lost++;
    for (int i = 0; i < nv; i++) mpq_clear(pt[i]);
    mpq_clear(z);
  }
  printf(" ; lost=%d", lost);
  lp_interval_destruct(&r); lp_interval_assignment_delete(m); lp_polynomial_delete(p);
}


/* apoly nv <coef> A <I_0> .. W <x_0 .. x_nv-1 z> ...: box with end points of every kind; z = claimed p(x) */
static void run_apoly(void) {
  a_bad = 0;
  int nv = atoi(tk());
  lp_polynomial_t* p = build_poly(0);
  expect("A");
  lp_interval_assignment_t* m = lp_interval_assignment_new(var_db);
  ia_history(m, nv);
  for (int i = 0; i < nv; i++) { lp_interval_t I; get_ai(&I); if (!ia_skip(&I)) lp_interval_assignment_set_interval(m, vars[i], &I); lp_interval_destruct(&I); }
  expect("W");
  lp_interval_t r; lp_interval_construct_zero(&r);
  lp_polynomial_interval_value(p, m, &r);
  put_ai(&r);
  int lost = 0;
  while (pos + nv < vntok) { for (int i = 0; i < nv; i++) tk(); if (!a_contains_tok(&r, tk())) lost++; }
  printf(" ; lost=%d%s", lost, a_bad ? " BAD-TOKEN" : "");
  lp_interval_destruct(&r); lp_interval_assignment_delete(m); lp_polynomial_delete(p);
}


/* ---------------------------------------------------------------- the rest of dyadic_interval.h / rational_interval.h / interval.h */
static void put_opt_di(lp_dyadic_interval_t* I) { put_di(I); lp_dyadic_interval_destruct(I); }
static int run_more(void) {
  if (is_op("dsplit")) {
    lp_dyadic_interval_t I, L, R; get_di(&I); int lo = atoi(tk()), ro = atoi(tk());
    lp_dyadic_interval_construct_from_split(&L, &R, &I, lo, ro);
    put_opt_di(&L); printf(" ; "); put_opt_di(&R); lp_dyadic_interval_destruct(&I); return 1;
  }
  if (is_op("dinter") || is_op("ddisj") || is_op("dequals")) {
    lp_dyadic_interval_t I1, I2; get_di(&I1); get_di(&I2);
    if (is_op("dinter")) {
      lp_dyadic_interval_t J; lp_dyadic_interval_construct_intersection(&J, &I1, &I2); put_opt_di(&J);
      printf(" ; "); lp_dyadic_interval_construct_intersection(&J, &I2, &I1); put_opt_di(&J);
    } else if (is_op("ddisj")) printf("%d %d", lp_dyadic_interval_disjoint(&I1, &I2) ? 1 : 0, lp_dyadic_interval_disjoint(&I2, &I1) ? 1 : 0);
    else printf("%d %d", lp_dyadic_interval_equals(&I1, &I2) ? 1 : 0, lp_dyadic_interval_equals(&I2, &I1) ? 1 : 0);
    lp_dyadic_interval_destruct(&I1); lp_dyadic_interval_destruct(&I2); return 1;
  }
  if (is_op("dcmp")) {
    lp_dyadic_interval_t I; get_di(&I); lp_value_t v; get_val(&v);
    int c = 0, k = -1;
    if (v.type == LP_VALUE_INTEGER) c = lp_dyadic_interval_cmp_integer(&I, &v.value.z);
    else if (v.type == LP_VALUE_DYADIC_RATIONAL) { c = lp_dyadic_interval_cmp_dyadic_rational(&I, &v.value.dy_q); k = lp_dyadic_interval_contains_dyadic_rational(&I, &v.value.dy_q); }
    else c = lp_dyadic_interval_cmp_rational(&I, &v.value.q);
    printf("%d", sgn_of(c)); if (k >= 0) printf(" %d", k);
    lp_value_destruct(&v); lp_dyadic_interval_destruct(&I); return 1;
  }
  if (is_op("dcollapse") || is_op("dseta") || is_op("dsetb")) {
    lp_dyadic_interval_t I; get_di(&I); lp_dyadic_rational_t q; get_dy(&q);
    if (is_op("dcollapse")) lp_dyadic_interval_collapse_to(&I, &q);
    else { int o = atoi(tk()); if (is_op("dseta")) lp_dyadic_interval_set_a(&I, &q, o); else lp_dyadic_interval_set_b(&I, &q, o); }
    put_di(&I); lp_dyadic_rational_destruct(&q); lp_dyadic_interval_destruct(&I); return 1;
  }
  if (is_op("dscale")) { lp_dyadic_interval_t I; get_di(&I); int n = atoi(tk()); lp_dyadic_interval_scale(&I, n); put_opt_di(&I); return 1; }
  if (is_op("dsize")) {
    lp_dyadic_interval_t I; get_di(&I); int sz = lp_dyadic_interval_size(&I);
    if (sz == INT_MIN) printf("INT_MIN"); else printf("%d", sz);
    printf(" %d", lp_dyadic_interval_is_point(&I));
    if (lp_dyadic_interval_is_point(&I)) { putchar(' '); put_dy(lp_dyadic_interval_get_point(&I)); }
    lp_dyadic_interval_destruct(&I); return 1;
  }
  if (is_op("dfromz") || is_op("rfromz")) {
    lp_integer_t a, b; mpz_init_set_str(&a, tk(), 10); int ao = atoi(tk()); mpz_init_set_str(&b, tk(), 10); int bo = atoi(tk());
    if (is_op("dfromz")) { lp_dyadic_interval_t I; lp_dyadic_interval_construct_from_integer(&I, &a, ao, &b, bo); put_opt_di(&I); }
    else { lp_rational_interval_t I; lp_rational_interval_construct_from_integer(&I, &a, ao, &b, bo); put_ri(&I); lp_rational_interval_destruct(&I); }
    mpz_clear(&a); mpz_clear(&b); return 1;
  }
  if (is_op("dassign")) {
    /* assign into I (both directions), self-assignment, then swap */
    lp_dyadic_interval_t I, F; get_di(&I); get_di(&F);
    lp_dyadic_interval_t X, Y; lp_dyadic_interval_construct_copy(&X, &I); lp_dyadic_interval_construct_copy(&Y, &F);
    lp_dyadic_interval_assign(&X, &F); put_di(&X); printf(" ; ");
    lp_dyadic_interval_assign(&Y, &I); put_di(&Y); printf(" ; ");
    lp_dyadic_interval_assign(&X, &X); put_di(&X); printf(" ; ");
    lp_dyadic_interval_swap(&I, &F); put_di(&I); printf(" ; "); put_di(&F);
    lp_dyadic_interval_destruct(&X); lp_dyadic_interval_destruct(&Y); lp_dyadic_interval_destruct(&I); lp_dyadic_interval_destruct(&F); return 1;
  }
  if (is_op("rassign")) {
    lp_rational_interval_t I, F; get_ri(&I); get_ri(&F);
    lp_rational_interval_t X, Y; lp_rational_interval_construct_copy(&X, &I); lp_rational_interval_construct_copy(&Y, &F);
    lp_rational_interval_assign(&X, &F); put_ri(&X); printf(" ; ");
    lp_rational_interval_assign(&Y, &I); put_ri(&Y); printf(" ; ");
    lp_rational_interval_assign(&X, &X); put_ri(&X); printf(" ; ");
    lp_rational_interval_swap(&I, &F); put_ri(&I); printf(" ; "); put_ri(&F);
    printf(" ; %d", lp_rational_interval_is_point(&I));
    if (lp_rational_interval_is_point(&I)) { putchar(' '); put_q(lp_rational_interval_get_point(&I)); }
    lp_rational_interval_destruct(&X); lp_rational_interval_destruct(&Y); lp_rational_interval_destruct(&I); lp_rational_interval_destruct(&F); return 1;
  }
  if (is_op("rfromdy")) {
    lp_dyadic_rational_t a, b; get_dy(&a); int ao = atoi(tk()); get_dy(&b); int bo = atoi(tk());
    lp_rational_interval_t I; lp_rational_interval_construct_from_dyadic(&I, &a, ao, &b, bo); put_ri(&I);
    lp_rational_interval_destruct(&I); lp_dyadic_rational_destruct(&a); lp_dyadic_rational_destruct(&b); return 1;
  }
  if (is_op("rfromdi")) {
    lp_dyadic_interval_t D; get_di(&D); lp_rational_interval_t I; lp_rational_interval_construct_from_dyadic_interval(&I, &D); put_ri(&I);
    lp_rational_interval_destruct(&I); lp_dyadic_interval_destruct(&D); return 1;
  }
  if (is_op("rcval")) {
    /* contains_value for every kind, and the kind-specific entry point */
    lp_rational_interval_t I; get_ri(&I); lp_value_t v; get_val(&v);
    printf("%d", lp_rational_interval_contains_value(&I, &v) ? 1 : 0);
    /* lp_rational_interval_contains_integer / _dyadic_rational / _algebraic_number are assert(0) stubs in libpoly: they are
       outside the property and are not called (DESIGN.md, observations outside the properties) */
    if (v.type == LP_VALUE_RATIONAL) printf(" %d", lp_rational_interval_contains_rational(&I, &v.value.q) ? 1 : 0);
    lp_value_destruct(&v); lp_rational_interval_destruct(&I); return 1;
  }
  if (is_op("rcalg")) {
    /* rcalg <I> <valio token>: algebraic (or any) value against a rational interval */
    lp_rational_interval_t I; get_ri(&I); lp_value_t v;
    if (!vio_parse(&v, tk())) { printf("BAD-TOKEN"); lp_rational_interval_destruct(&I); return 1; }
    printf("%d", lp_rational_interval_contains_value(&I, &v) ? 1 : 0);
    lp_value_destruct(&v); lp_rational_interval_destruct(&I); return 1;
  }
  if (is_op("vcollapse") || is_op("vseta") || is_op("vsetb")) {
    lp_interval_t I; get_vi(&I); lp_value_t v; get_val(&v);
    if (is_op("vcollapse")) lp_interval_collapse_to(&I, &v);
    else { int o = atoi(tk()); if (is_op("vseta")) lp_interval_set_a(&I, &v, o); else lp_interval_set_b(&I, &v, o); }
    put_vi(&I); lp_value_destruct(&v); lp_interval_destruct(&I); return 1;
  }
  if (is_op("vinfo")) {
    /* is_full, is_point (+ get_point), size_approx, and the constant full interval */
    lp_interval_t I; get_vi(&I);
    printf("%d %d", lp_interval_is_point(&I) ? 0 : (lp_interval_is_full(&I) ? 1 : 0), lp_interval_is_point(&I));
    if (lp_interval_is_point(&I)) { putchar(' '); put_val(lp_interval_get_point(&I)); }
    int sz = lp_interval_size_approx(&I);
    if (sz == INT_MIN) printf(" INT_MIN"); else if (sz == INT_MAX) printf(" INT_MAX"); else printf(" %d", sz);
    printf(" %d ", lp_interval_is_full(lp_interval_full()) ? 1 : 0); put_vi(lp_interval_full());
    lp_interval_destruct(&I); return 1;
  }
  if (is_op("vswap")) {
    lp_interval_t I1, I2; get_vi(&I1); get_vi(&I2); lp_interval_swap(&I1, &I2); put_vi(&I1); printf(" ; "); put_vi(&I2);
    lp_interval_destruct(&I1); lp_interval_destruct(&I2); return 1;
  }
  return 0;
}

/* GMP reports a division by zero with SIGFPE: caught for the two *_construct_from_int cases only, so that the
 * defect is one deterministic output line instead of the death of the driver */
static sigjmp_buf fpe_env;
static void on_fpe(int sig) { (void) sig; siglongjmp(fpe_env, 1); }

int main(void) {
  var_db = lp_variable_db_new(); var_order = lp_variable_order_new();
  for (int i = 0; i < MAXV; i++) { char nm[8]; snprintf(nm, sizeof nm, "x%d", i); vars[i] = lp_variable_db_new_variable(var_db, nm); lp_variable_order_push(var_order, vars[i]); }
  ctx = lp_polynomial_context_new(lp_Z, var_db, var_order);
  while (next_case()) {
    pos = 1;
    if (vntok == 0) { end_case(); continue; }
    if (is_op("radd")) run_rbin(rational_interval_add, '+');
    else if (is_op("rsub")) run_rbin(rational_interval_sub, '-');
    else if (is_op("rmul")) run_rbin(rational_interval_mul, '*');
    else if (is_op("rneg")) run_run(rational_interval_neg, '-');
    else if (is_op("rpow")) run_run(r_pow1, '^');
    else if (is_op("rsgn")) { lp_rational_interval_t I; get_ri(&I); printf("%d %d", sgn_of(lp_rational_interval_sgn(&I)), lp_rational_interval_contains_zero(&I)); lp_rational_interval_destruct(&I); }
    else if (is_op("rcons")) {
      long a = atol(tk()); int ao = atoi(tk()); long b = atol(tk()); int bo = atoi(tk());
      void (*old)(int) = signal(SIGFPE, on_fpe);
      if (sigsetjmp(fpe_env, 1) == 0) {
        lp_rational_interval_t I; lp_rational_interval_construct_from_int(&I, a, ao, b, bo); put_ri(&I); lp_rational_interval_destruct(&I);
      } else printf("SIGFPE (division by zero inside lp_rational_interval_construct_from_int)");
      signal(SIGFPE, old);
    }
    else if (is_op("dadd")) run_dbin(dyadic_interval_add, '+');
    else if (is_op("dsub")) run_dbin(dyadic_interval_sub, '-');
    else if (is_op("dmul")) run_dbin(dyadic_interval_mul, '*');
    else if (is_op("dneg")) run_dun(dyadic_interval_neg, '-');
    else if (is_op("dpow")) run_dun(d_pow1, '^');
    else if (is_op("dsgn")) { lp_dyadic_interval_t I; get_di(&I); printf("%d %d", sgn_of(lp_dyadic_interval_sgn(&I)), lp_dyadic_interval_contains_zero(&I)); lp_dyadic_interval_destruct(&I); }
    else if (is_op("dcons")) {
      long a = atol(tk()); int ao = atoi(tk()); long b = atol(tk()); int bo = atoi(tk());
      void (*old)(int) = signal(SIGFPE, on_fpe);
      if (sigsetjmp(fpe_env, 1) == 0) {
        lp_dyadic_interval_t I; lp_dyadic_interval_construct_from_int(&I, a, ao, b, bo); put_di(&I); lp_dyadic_interval_destruct(&I);
      } else printf("SIGFPE (division by zero inside lp_dyadic_interval_construct_from_int)");
      signal(SIGFPE, old);
    }
    else if (is_op("vadd")) run_vbin(lp_interval_add, '+');
    else if (is_op("vmul")) run_vbin(lp_interval_mul, '*');
    else if (is_op("vpow")) run_vpow();
    else if (is_op("vsgn")) { lp_interval_t I; get_vi(&I); printf("%d", sgn_of(lp_interval_sgn(&I))); lp_interval_destruct(&I); }
    else if (is_op("sc")) {
      /* sc <0..5> <I> W x...: the interval answer, and how many witnesses contradict a `true` answer */
      lp_sign_condition_t c = (lp_sign_condition_t) atoi(tk());
      lp_interval_t I; get_vi(&I); expect("W");
      int ans = lp_sign_condition_consistent_interval(c, &I);
      int bad = 0;
      while (pos < vntok) { mpq_t x; get_q(x); if (ans && !lp_sign_condition_consistent(c, sgn_q(x))) bad++; mpq_clear(x); }
      printf("%d bad=%d", ans ? 1 : 0, bad);
      lp_interval_destruct(&I);
    }
    else if (is_op("poly")) run_poly();
    else if (is_op("aadd") || is_op("amul") || is_op("apow") || is_op("apoly")) {
      /* an assertion failing inside the library becomes one deterministic output line, not the death of the driver */
      void (*old)(int) = signal(SIGABRT, on_fpe);
      if (sigsetjmp(fpe_env, 1) == 0) {
        if (is_op("aadd")) run_abin(lp_interval_add);
        else if (is_op("amul")) run_abin(lp_interval_mul);
        else if (is_op("apow")) run_apow();
        else run_apoly();
      } else printf(" ABORT (assertion failed inside the library)");
      signal(SIGABRT, old);
    }
    else {
      /* an assertion failing inside the library becomes one deterministic output line */
      void (*old)(int) = signal(SIGABRT, on_fpe);
      if (sigsetjmp(fpe_env, 1) == 0) { if (!run_more()) printf("UNKNOWN-OP"); }
      else printf(" ABORT (assertion failed inside the library)");
      signal(SIGABRT, old);
    }
    end_case();
  }
  lp_polynomial_context_detach(ctx); lp_variable_order_detach(var_order); lp_variable_db_detach(var_db);
  free(vline);
  return 0;
}
