/* C05 driver: factorizations.  One case per line, one output line per case.
 *
 *   ufac P c0,c1,...,cn [| hints]   lp_upolynomial_factor            in Z[x] (P = 0) or Z_P[x]
 *   usqf P c0,c1,...,cn [| hints]   lp_upolynomial_factor_square_free
 *   msqf ORD poly      [| hints]    lp_polynomial_factor_square_free (Z[x0..], ORD = variable order, bottom
 *   mcf  ORD poly      [| hints]    lp_polynomial_factor_content_free       first, e.g. 201; "-" = default)
 *
 * univariate output:   <constant> <k> <f1> <m1> ... <fk> <mk>      (factors as dense c0,c1,...)
 * multivariate output: <k> <f1> <m1> ... <fk> <mk>                 (factors in polyio.h text)
 * Tokens after "|" belong to the model side (planted factorisation) and are ignored here.
 * An assertion failure inside libpoly (abort) is reported as the line "ABORT" (the driver survives; a
 * sanitizer report still kills the driver and is seen as a crash by ./check). */
#include "polyio.h"
#include <upolynomial.h>
#include <upolynomial_factors.h>
#include <signal.h>
#include <setjmp.h>

static sigjmp_buf jb;
static volatile sig_atomic_t armed = 0;
static void on_abort(int sig) { (void) sig; if (armed) { armed = 0; siglongjmp(jb, 1); } }

/* parse "c0,c1,...": returns malloc'ed array of n integers */
static lp_integer_t* parse_dense(const char* s, size_t* n) {
  size_t cnt = 1; for (const char* c = s; *c; ++c) if (*c == ',') cnt++;
  lp_integer_t* a = malloc(cnt * sizeof(lp_integer_t));
  char* dup = strdup(s); char* save = NULL; size_t i = 0;
  for (char* t = strtok_r(dup, ",", &save); t; t = strtok_r(NULL, ",", &save)) lp_integer_construct_from_string(lp_Z, &a[i++], t, 10);
  free(dup); *n = i; return a;
}
static void free_dense(lp_integer_t* a, size_t n) { for (size_t i = 0; i < n; ++i) lp_integer_destruct(&a[i]); free(a); }

static void print_dense(const lp_upolynomial_t* p) {
  size_t d = lp_upolynomial_degree(p);
  lp_integer_t* a = malloc((d + 1) * sizeof(lp_integer_t));
  for (size_t i = 0; i <= d; ++i) lp_integer_construct_from_int(lp_Z, &a[i], 0);
  lp_upolynomial_unpack(p, a);
  for (size_t i = 0; i <= d; ++i) { if (i) putchar(','); print_z(&a[i]); }
  free_dense(a, d + 1);
}

static void run_upoly(int full) {
  lp_int_ring_t* K = lp_Z;
  if (strcmp(vtok[1], "0") != 0) {
    lp_integer_t M; lp_integer_construct_from_string(lp_Z, &M, vtok[1], 10);
    K = lp_int_ring_create(&M, 1); lp_integer_destruct(&M);
  }
  size_t n; lp_integer_t* a = parse_dense(vtok[2], &n);
  lp_upolynomial_t* p = lp_upolynomial_construct(K, n - 1, a);
  lp_upolynomial_factors_t* f = 0;
  armed = 1;
  if (sigsetjmp(jb, 1) == 0) {
    f = full ? lp_upolynomial_factor(p) : lp_upolynomial_factor_square_free(p);
    armed = 0;
    print_z(lp_upolynomial_factors_get_constant(f));
    size_t k = lp_upolynomial_factors_size(f);
    printf(" %zu", k);
    for (size_t i = 0; i < k; ++i) {
      size_t m; lp_upolynomial_t* fi = lp_upolynomial_factors_get_factor(f, i, &m);
      putchar(' '); print_dense(fi); printf(" %zu", m);
    }
    lp_upolynomial_factors_destruct(f, 1);
  } else {
    printf("ABORT");          /* whatever the aborted call had allocated is lost */
  }
  lp_upolynomial_delete(p);
  free_dense(a, n);
  if (K != lp_Z) lp_int_ring_detach(K);
}

static void run_mpoly(int sqf) {
  int perm[PIO_NV]; int np = 0;
  if (strcmp(vtok[1], "-") != 0) { for (const char* c = vtok[1]; *c && np < PIO_NV; ++c) perm[np++] = *c - '0'; pio_set_order(perm, np); }
  lp_polynomial_t* A = pio_new(vtok[2]);
  lp_polynomial_t** fs = 0; size_t* ms = 0; size_t k = 0;
  armed = 1;
  if (sigsetjmp(jb, 1) == 0) {
    if (sqf) lp_polynomial_factor_square_free(A, &fs, &ms, &k); else lp_polynomial_factor_content_free(A, &fs, &ms, &k);
    armed = 0;
    printf("%zu", k);
    for (size_t i = 0; i < k; ++i) { putchar(' '); pio_print(fs[i]); printf(" %zu", ms[i]); }
    for (size_t i = 0; i < k; ++i) { lp_polynomial_destruct(fs[i]); free(fs[i]); }
    free(fs); free(ms);
  } else {
    printf("ABORT");
  }
  lp_polynomial_delete(A);
  if (np) { int id[PIO_NV]; for (int i = 0; i < PIO_NV; ++i) id[i] = i; pio_set_order(id, PIO_NV); }
}

int main(void) {
  signal(SIGABRT, on_abort);
  pio_init(lp_Z);
  while (next_case()) {
    if (vntok < 3) { printf("UNKNOWN-OP"); end_case(); continue; }
    if (is_op("ufac")) run_upoly(1);
    else if (is_op("usqf")) run_upoly(0);
    else if (is_op("msqf")) run_mpoly(1);
    else if (is_op("mcf")) run_mpoly(0);
    else printf("UNKNOWN-OP");
    end_case();
  }
  free(pio_terms); free(vline);
  pio_done();
  return 0;
}
