/* C14 driver: finite-field feasibility sets (feasibility_set_int.h), root finding in Z_p
 * (lp_upolynomial_roots_find_Zp), Z_p constraints (lp_polynomial_constraint_get_feasible_set_Zp /
 * _evaluate_Zp) and lp_polynomial_reduce_degree_Zp.  One case per line, one result line per case.
 *
 * set literal (one token):  L:e1,e2,...  (listed)   I:e1,e2,...  (complemented);  elements are ARBITRARY
 * integers (unsorted, repeated, outside the symmetric range): the constructor must normalise.
 * polynomial term (prefix tokens):  N c  |  P v n t_0 ... t_{n-1}   (v: 0 = x (top), 1 = y, 2 = z)        */
#include "common.h"
#include <unistd.h>
#include <sys/wait.h>
#include <signal.h>
#include <integer.h>
#include <feasibility_set_int.h>
#include <upolynomial.h>
#include <polynomial.h>
#include <polynomial_context.h>
#include <variable_db.h>
#include <variable_order.h>
#include <assignment.h>
#include <value.h>
#include <sign_condition.h>

/* verification-only hook (fixes/hook-C14-force-rabin.patch); weak: absent in an unhooked tree */
extern int lp_verif_force_rabin __attribute__((weak));

static lp_variable_db_t* g_db;
static lp_variable_order_t* g_order;
static lp_variable_t g_var[3];
static int g_child = 0;

static lp_int_ring_t* mkring(const char* m) {
  lp_integer_t M; mpz_init_set_str(&M, m, 10);
  int pr = mpz_probab_prime_p(&M, 25) ? 1 : 0;
  lp_int_ring_t* K = lp_int_ring_create(&M, pr);
  mpz_clear(&M);
  return K;
}

/* ---- sets */
static lp_feasibility_set_int_t* parse_set(lp_int_ring_t* K, const char* tok) {
  int inv = (tok[0] == 'I');
  const char* p = tok + 2;
  size_t n = 0, cap = 8;
  lp_integer_t* e = malloc(cap * sizeof(lp_integer_t));
  while (*p) {
    const char* q = p; while (*q && *q != ',') q++;
    char* buf = strndup(p, (size_t)(q - p));
    if (n == cap) { cap *= 2; e = realloc(e, cap * sizeof(lp_integer_t)); }
    mpz_init_set_str(&e[n++], buf, 10);
    free(buf);
    p = *q ? q + 1 : q;
  }
  /* the empty list goes through the dedicated constructors; new_from_integer with size 0 is exercised by
   * the op `fromint0` alone (the pinned code passes a null array to qsort there) */
  lp_feasibility_set_int_t* s = n ? lp_feasibility_set_int_new_from_integer(K, e, n, inv)
                                  : (inv ? lp_feasibility_set_int_new_full(K) : lp_feasibility_set_int_new_empty(K));
  for (size_t i = 0; i < n; i++) mpz_clear(&e[i]);
  free(e);
  return s;
}
/* the library's destructor frees the array but not the integers in it; the driver clears them itself
 * so that its own runs stay leak-free (the omission is reported under C19, not here) */
static void del_set(lp_feasibility_set_int_t* s) {
  for (size_t i = 0; i < s->size; i++) lp_integer_destruct(&s->elements[i]);
  s->size = 0;
  lp_feasibility_set_int_delete(s);
}
static void print_repr(const lp_feasibility_set_int_t* s) {
  printf("%c:", s->inverted ? 'I' : 'L');
  for (size_t i = 0; i < s->size; i++) { if (i) putchar(','); print_z(&s->elements[i]); }
}
static int small_field(const lp_int_ring_t* K) { return mpz_cmp_ui(&K->M, 64) <= 0; }
/* membership sweep over the whole field, lb .. ub, through lp_feasibility_set_int_contains */
static void print_mem(const lp_feasibility_set_int_t* s) {
  if (!small_field(s->K)) { putchar('-'); return; }
  lp_integer_t v; mpz_init_set(&v, &s->K->lb);
  while (mpz_cmp(&v, &s->K->ub) <= 0) {
    putchar(lp_feasibility_set_int_contains(s, &v) ? '1' : '0');
    mpz_add_ui(&v, &v, 1);
  }
  mpz_clear(&v);
}
static const char* stname(lp_feasibility_set_int_status_t st) {
  switch (st) {
  case LP_FEASIBILITY_SET_INT_S1: return "S1";
  case LP_FEASIBILITY_SET_INT_S2: return "S2";
  case LP_FEASIBILITY_SET_INT_NEW: return "NEW";
  case LP_FEASIBILITY_SET_INT_EMPTY: return "EMPTY";
  }
  return "?";
}
static int same_repr(const lp_feasibility_set_int_t* a, const lp_feasibility_set_int_t* b) {
  if (a->inverted != b->inverted || a->size != b->size) return 0;
  for (size_t i = 0; i < a->size; i++) if (mpz_cmp(&a->elements[i], &b->elements[i])) return 0;
  return 1;
}

/* ---- polynomials */
static int g_pos;
static void build_term(const lp_polynomial_context_t* ctx, lp_polynomial_t* acc, unsigned long e[3]) {
  if (g_pos >= vntok) return;
  if (strcmp(vtok[g_pos], "N") == 0) {
    lp_integer_t c, one; mpz_init_set_str(&c, vtok[g_pos + 1], 10); mpz_init_set_ui(&one, 1);
    g_pos += 2;
    lp_polynomial_t* t = lp_polynomial_alloc();
    /* c as a constant (normalised in K; may be 0 there), times the powers built with coefficient 1 */
    lp_polynomial_construct_simple(t, ctx, &c, g_var[0], 0);
    for (int v = 0; v < 3; v++) if (e[v] > 0) {
      lp_polynomial_t* u = lp_polynomial_alloc();
      lp_polynomial_construct_simple(u, ctx, &one, g_var[v], e[v]);
      lp_polynomial_mul(t, t, u);
      lp_polynomial_delete(u);
    }
    lp_polynomial_add(acc, acc, t);
    lp_polynomial_delete(t);
    mpz_clear(&c); mpz_clear(&one);
  } else { /* P v n ... */
    int v = atoi(vtok[g_pos + 1]); int n = atoi(vtok[g_pos + 2]);
    g_pos += 3;
    unsigned long save = e[v];
    for (int i = 0; i < n; i++) { e[v] = save + (unsigned long)i; build_term(ctx, acc, e); }
    e[v] = save;
  }
}
static lp_polynomial_t* parse_poly(const lp_polynomial_context_t* ctx, int pos) {
  lp_polynomial_t* acc = lp_polynomial_new(ctx);
  unsigned long e[3] = {0, 0, 0};
  g_pos = pos;
  build_term(ctx, acc, e);
  return acc;
}
static void set_int_value(lp_assignment_t* m, lp_variable_t x, const lp_integer_t* z) {
  lp_value_t v; lp_value_construct(&v, LP_VALUE_INTEGER, z);
  lp_assignment_set_value(m, x, &v);
  lp_value_destruct(&v);
}
/* dense coefficients of a polynomial in x alone (or a constant) */
static void print_dense(const lp_polynomial_t* A) {
  lp_upolynomial_t* u = lp_polynomial_to_univariate(A);
  if (!u) { printf("NOT-UNIVARIATE"); return; }
  size_t d = lp_upolynomial_degree(u);
  lp_integer_t* c = malloc((d + 1) * sizeof(lp_integer_t));
  for (size_t i = 0; i <= d; i++) mpz_init(&c[i]);
  lp_upolynomial_unpack(u, c);
  for (size_t i = 0; i <= d; i++) { if (i) putchar(','); print_z(&c[i]); mpz_clear(&c[i]); }
  free(c);
  lp_upolynomial_delete(u);
}
static int same_poly_print(const lp_polynomial_t* A, const lp_polynomial_t* B) { return lp_polynomial_cmp(A, B) == 0; }

/* maximal exponent per variable over the monomials of a polynomial */
static void max_deg_cb(const lp_polynomial_context_t* ctx, lp_monomial_t* m, void* data) {
  unsigned long* d = (unsigned long*)data; (void)ctx;
  if (mpz_sgn(&m->a) == 0) return;
  for (size_t i = 0; i < m->n; i++)
    for (int v = 0; v < 3; v++)
      if (m->p[i].x == g_var[v] && m->p[i].d > d[v]) d[v] = m->p[i].d;
}
/* values of a polynomial at every point of K^3 (x fastest), through lp_polynomial_evaluate_integer */
static void print_all_values(const lp_polynomial_t* A, const lp_int_ring_t* K) {
  lp_assignment_t* m = lp_assignment_new(g_db);
  lp_integer_t v[3], out; mpz_init(&out);
  for (int i = 0; i < 3; i++) mpz_init(&v[i]);
  int first = 1;
  for (mpz_set(&v[2], &K->lb); mpz_cmp(&v[2], &K->ub) <= 0; mpz_add_ui(&v[2], &v[2], 1))
    for (mpz_set(&v[1], &K->lb); mpz_cmp(&v[1], &K->ub) <= 0; mpz_add_ui(&v[1], &v[1], 1))
      for (mpz_set(&v[0], &K->lb); mpz_cmp(&v[0], &K->ub) <= 0; mpz_add_ui(&v[0], &v[0], 1)) {
        for (int i = 0; i < 3; i++) set_int_value(m, g_var[i], &v[i]);
        lp_polynomial_evaluate_integer(A, m, &out);
        if (!first) putchar(','); first = 0;
        print_z(&out);
      }
  for (int i = 0; i < 3; i++) mpz_clear(&v[i]);
  mpz_clear(&out);
  lp_assignment_delete(m);
}

/* an independently built copy of a polynomial: its non-zero monomials added up by ring arithmetic, which yields
 * the canonical recursive representation (no zero leading coefficient, no constant wrapped as a polynomial) */
typedef struct { const lp_polynomial_context_t* ctx; lp_polynomial_t* acc; } rebuild_t;
static void rebuild_cb(const lp_polynomial_context_t* ctx, lp_monomial_t* m, void* data) {
  rebuild_t* r = (rebuild_t*)data;
  if (mpz_sgn(&m->a) == 0) return;
  lp_integer_t one; mpz_init_set_ui(&one, 1);
  lp_polynomial_t* t = lp_polynomial_alloc();
  lp_polynomial_construct_simple(t, ctx, &m->a, g_var[0], 0);
  for (size_t i = 0; i < m->n; i++) if (m->p[i].d > 0) {
    lp_polynomial_t* u = lp_polynomial_alloc();
    lp_polynomial_construct_simple(u, ctx, &one, m->p[i].x, (unsigned)m->p[i].d);
    lp_polynomial_mul(t, t, u);
    lp_polynomial_delete(u);
  }
  lp_polynomial_add(r->acc, r->acc, t);
  lp_polynomial_delete(t); mpz_clear(&one);
}

static void do_roots(lp_int_ring_t* K, int first, int force) {
  int n = vntok - first;
  lp_integer_t* c = malloc((size_t)n * sizeof(lp_integer_t));
  for (int i = 0; i < n; i++) mpz_init_set_str(&c[i], vtok[first + i], 10);
  lp_upolynomial_t* f = lp_upolynomial_construct(K, (size_t)(n - 1), c);
  for (int i = 0; i < n; i++) mpz_clear(&c[i]);
  free(c);
  if (lp_upolynomial_degree(f) == 0) { printf("CONST"); lp_upolynomial_delete(f); return; }
  if (force) {
    if (!&lp_verif_force_rabin) { printf("NOHOOK"); lp_upolynomial_delete(f); return; }
    lp_verif_force_rabin = 1;
  }
  lp_integer_t* roots = NULL; size_t nr = 0;
  lp_upolynomial_roots_find_Zp(f, &roots, &nr);
  if (force) lp_verif_force_rabin = 0;
  printf("%zu", nr);
  for (size_t i = 0; i < nr; i++) { putchar(' '); print_z(&roots[i]); lp_integer_destruct(&roots[i]); }
  free(roots);
  lp_upolynomial_delete(f);
}

int main(void) {
  g_db = lp_variable_db_new();
  g_order = lp_variable_order_new();
  g_var[0] = lp_variable_db_new_variable(g_db, "x");
  g_var[1] = lp_variable_db_new_variable(g_db, "y");
  g_var[2] = lp_variable_db_new_variable(g_db, "z");
  /* later pushed = bigger: z < y < x, x is the main variable */
  lp_variable_order_push(g_order, g_var[2]);
  lp_variable_order_push(g_order, g_var[1]);
  lp_variable_order_push(g_order, g_var[0]);

  while (next_case()) {
    /* watchdog: every case takes milliseconds; a library call that does not return (e.g. materialising the
     * complement of a set over a 2^31-element field) kills the driver = a crash of this case, no partial line */
    alarm(10);
    if (vntok < 2) { end_case(); continue; }
    /* set operations over a big field, and multivariate reductions, run in a child: a wrong branch there (materialising the complement of a
     * set over a 2^31.. element field) hangs or dies, and must cost this one case, not a driver restart */
    if ((is_op("bin") && strlen(vtok[1]) > 6) || is_op("redm")) {
      fflush(stdout);
      pid_t pid = fork();
      if (pid > 0) {
        alarm(30);
        int st = 0; waitpid(pid, &st, 0);
        if (!(WIFEXITED(st) && WEXITSTATUS(st) == 0)) {
          if (WIFSIGNALED(st)) printf("CRASH signal %d%s", WTERMSIG(st), WTERMSIG(st) == SIGALRM ? " (no answer within 8 s)" : "");
          else printf("CRASH exit %d", WEXITSTATUS(st));
          end_case();
        }
        alarm(0);
        continue;
      }
      /* child (or fork failed: run in place) */
      if (pid == 0) { g_child = 1; alarm(8); }   /* alarms are not inherited across fork */
    }
    lp_int_ring_t* K = mkring(vtok[1]);

    if (is_op("obs")) {
      lp_feasibility_set_int_t* s = parse_set(K, vtok[2]);
      lp_integer_t sz; mpz_init_set_si(&sz, -77);       /* pre-used output */
      lp_feasibility_set_int_size(s, &sz);
      print_repr(s);
      printf(" size="); print_z(&sz);
      printf(" approx=%zu empty=%d full=%d", lp_feasibility_set_int_size_approx(s),
             lp_feasibility_set_int_is_empty(s) ? 1 : 0, lp_feasibility_set_int_is_full(s) ? 1 : 0);
      lp_feasibility_set_int_t* c = lp_feasibility_set_int_new_copy(s);
      printf(" copy="); print_repr(c); printf(" copyeq=%d", lp_feasibility_set_int_eq(s, c) ? 1 : 0);
      /* assign into a pre-used set, self-assignment, swap */
      lp_feasibility_set_int_t* a = lp_feasibility_set_int_new_full(K);
      lp_feasibility_set_int_assign(a, s);
      lp_feasibility_set_int_assign(a, a);
      lp_feasibility_set_int_t* e = lp_feasibility_set_int_new_empty(K);
      lp_feasibility_set_int_swap(a, e);
      printf(" assign="); print_repr(e); printf(" swapped="); print_repr(a);
      printf(" mem="); print_mem(s);
      mpz_clear(&sz); del_set(s); del_set(c); del_set(a); del_set(e);
    } else if (is_op("fromint0")) {
      /* fromint0 M inv : new_from_integer with an empty integer array */
      lp_integer_t dummy; mpz_init(&dummy);
      lp_feasibility_set_int_t* s = lp_feasibility_set_int_new_from_integer(K, &dummy, 0, atoi(vtok[2]));
      print_repr(s); printf(" empty=%d full=%d", lp_feasibility_set_int_is_empty(s) ? 1 : 0, lp_feasibility_set_int_is_full(s) ? 1 : 0);
      mpz_clear(&dummy); del_set(s);
    } else if (is_op("point")) {
      lp_feasibility_set_int_t* s = parse_set(K, vtok[2]);
      printf("point=%d", lp_feasibility_set_int_is_point(s) ? 1 : 0);
      del_set(s);
    } else if (is_op("bin")) {
      lp_feasibility_set_int_t* s1 = parse_set(K, vtok[2]);
      /* identical tokens: the SAME object is passed for both operands */
      lp_feasibility_set_int_t* s2 = strcmp(vtok[2], vtok[3]) == 0 ? s1 : parse_set(K, vtok[3]);
      lp_feasibility_set_int_status_t su = LP_FEASIBILITY_SET_INT_NEW, si = LP_FEASIBILITY_SET_INT_NEW;
      lp_feasibility_set_int_t* u = lp_feasibility_set_int_union_with_status(s1, s2, &su);
      lp_feasibility_set_int_t* u2 = lp_feasibility_set_int_union(s1, s2);
      lp_feasibility_set_int_t* i = lp_feasibility_set_int_intersect_with_status(s1, s2, &si);
      lp_feasibility_set_int_t* i2 = lp_feasibility_set_int_intersect(s1, s2);
      lp_feasibility_set_int_t* ad = lp_feasibility_set_int_new_copy(s1);
      lp_feasibility_set_int_add(ad, s2 == s1 ? ad : s2);
      printf("U "); print_repr(u); printf(" %s I ", stname(su)); print_repr(i); printf(" %s", stname(si));
      if (!same_repr(u, u2)) { printf(" MISMATCH-union-nostatus="); print_repr(u2); }
      if (!same_repr(i, i2)) { printf(" MISMATCH-intersect-nostatus="); print_repr(i2); }
      if (!same_repr(u, ad)) { printf(" MISMATCH-add="); print_repr(ad); }
      printf(" eq=%d", lp_feasibility_set_int_eq(s1, s2) ? 1 : 0);
      printf(" memU="); print_mem(u); printf(" memI="); print_mem(i);
      del_set(u); del_set(u2); del_set(i); del_set(i2); del_set(ad);
      if (s2 != s1) del_set(s2);
      del_set(s1);
    } else if (is_op("contains")) {
      lp_feasibility_set_int_t* s = parse_set(K, vtok[2]);
      for (int k = 3; k < vntok; k++) {
        lp_integer_t v; mpz_init_set_str(&v, vtok[k], 10);
        putchar(lp_feasibility_set_int_contains(s, &v) ? '1' : '0');
        mpz_clear(&v);
      }
      del_set(s);
    } else if (is_op("pick")) {
      lp_feasibility_set_int_t* s = parse_set(K, vtok[2]);
      if (lp_feasibility_set_int_is_empty(s)) printf("EMPTY");
      else {
        lp_integer_t v1, v2; mpz_init(&v1); mpz_init_set_str(&v2, "123456789012345678901234567890", 10);
        lp_feasibility_set_int_pick_value(s, &v1);
        lp_feasibility_set_int_pick_value(s, &v2);
        print_z(&v1); putchar(' '); print_z(&v2);
        mpz_clear(&v1); mpz_clear(&v2);
      }
      del_set(s);
    } else if (is_op("roots") || is_op("rootsc")) {
      /* roots M c0..cn  |  rootsc M n c0..cn <certificate for the model> */
      if (is_op("roots")) do_roots(K, 2, 0);
      else { int n = atoi(vtok[2]); int save = vntok; vntok = 3 + n + 1; do_roots(K, 3, 0); vntok = save; }
    } else if (is_op("rootsR")) {
      do_roots(K, 2, 1);
    } else if (is_op("cons")) {
      /* cons M cond neg yv zv P k a1..ak C ... T term */
      lp_polynomial_context_t* ctx = lp_polynomial_context_new(K, g_db, g_order);
      lp_sign_condition_t cond = strcmp(vtok[2], "EQ") == 0 ? LP_SGN_EQ_0 : LP_SGN_NE_0;
      int neg = atoi(vtok[3]);
      lp_integer_t yv, zv; mpz_init_set_str(&yv, vtok[4], 10); mpz_init_set_str(&zv, vtok[5], 10);
      int np = atoi(vtok[7]);
      int tpos = 8 + np; while (tpos < vntok && strcmp(vtok[tpos], "T") != 0) tpos++;
      lp_polynomial_t* A = parse_poly(ctx, tpos + 1);
      lp_assignment_t* m = lp_assignment_new(g_db);
      set_int_value(m, g_var[1], &yv); set_int_value(m, g_var[2], &zv);
      if (!lp_polynomial_is_univariate_m(A, m)) printf("NOT-UNIVARIATE-M");
      else {
        lp_feasibility_set_int_t* s = lp_polynomial_constraint_get_feasible_set_Zp(A, cond, neg, m);
        print_repr(s);
        printf(" mem="); print_mem(s);
        /* evaluate_Zp on the whole field (small fields) and on the probe values */
        lp_sign_condition_t c2 = neg ? lp_sign_condition_negate(cond) : cond;
        printf(" ev=");
        if (small_field(K)) {
          lp_integer_t v; mpz_init_set(&v, &K->lb);
          while (mpz_cmp(&v, &K->ub) <= 0) {
            set_int_value(m, g_var[0], &v);
            putchar(lp_polynomial_constraint_evaluate_Zp(A, c2, m) ? '1' : '0');
            mpz_add_ui(&v, &v, 1);
          }
          mpz_clear(&v);
        } else putchar('-');
        printf(" probes=");
        for (int k = 0; k < np; k++) {
          lp_integer_t v; mpz_init_set_str(&v, vtok[8 + k], 10);
          set_int_value(m, g_var[0], &v);
          putchar(lp_polynomial_constraint_evaluate_Zp(A, c2, m) ? '1' : '0');
          putchar(lp_feasibility_set_int_contains(s, &v) ? '1' : '0');
          mpz_clear(&v);
        }
        if (np == 0) putchar('-');
        del_set(s);
      }
      lp_assignment_delete(m);
      lp_polynomial_delete(A);
      mpz_clear(&yv); mpz_clear(&zv);
      lp_polynomial_context_detach(ctx);
    } else if (is_op("red")) {
      /* red M c0..cn : univariate reduce_degree_Zp with fresh / pre-used / aliased output */
      lp_polynomial_context_t* ctx = lp_polynomial_context_new(K, g_db, g_order);
      lp_polynomial_t* A = lp_polynomial_new(ctx);
      for (int k = 2; k < vntok; k++) {
        lp_integer_t c; mpz_init_set_str(&c, vtok[k], 10);
        lp_integer_t one; mpz_init_set_ui(&one, 1);
        lp_polynomial_t* t = lp_polynomial_alloc();
        lp_polynomial_construct_simple(t, ctx, &c, g_var[0], 0);
        if (k > 2) {
          lp_polynomial_t* u = lp_polynomial_alloc();
          lp_polynomial_construct_simple(u, ctx, &one, g_var[0], (unsigned)(k - 2));
          lp_polynomial_mul(t, t, u);
          lp_polynomial_delete(u);
        }
        lp_polynomial_add(A, A, t);
        lp_polynomial_delete(t); mpz_clear(&c); mpz_clear(&one);
      }
      lp_polynomial_t* R1 = lp_polynomial_new(ctx);
      lp_polynomial_reduce_degree_Zp(R1, A);
      lp_integer_t seven; mpz_init_set_ui(&seven, 7);
      lp_polynomial_t* R2 = lp_polynomial_alloc(); lp_polynomial_construct_simple(R2, ctx, &seven, g_var[1], 3);
      lp_polynomial_reduce_degree_Zp(R2, A);
      lp_polynomial_t* R3 = lp_polynomial_new_copy(A);
      lp_polynomial_reduce_degree_Zp(R3, R3);
      print_dense(R1);
      if (!same_poly_print(R1, R2)) { printf(" MISMATCH-used="); print_dense(R2); }
      if (!same_poly_print(R1, R3)) { printf(" MISMATCH-alias="); print_dense(R3); }
      mpz_clear(&seven);
      lp_polynomial_delete(A); lp_polynomial_delete(R1); lp_polynomial_delete(R2); lp_polynomial_delete(R3);
      lp_polynomial_context_detach(ctx);
    } else if (is_op("redm")) {
      /* redm M <term>: multivariate reduce_degree_Zp, judged by its values on all of K^3 and its degrees */
      lp_polynomial_context_t* ctx = lp_polynomial_context_new(K, g_db, g_order);
      lp_polynomial_t* A = parse_poly(ctx, 2);
      lp_polynomial_t* R1 = lp_polynomial_new(ctx);
      lp_polynomial_reduce_degree_Zp(R1, A);
      lp_polynomial_t* R3 = lp_polynomial_new_copy(A);
      lp_polynomial_reduce_degree_Zp(R3, R3);
      unsigned long d[3] = {0, 0, 0};
      lp_polynomial_traverse(R1, max_deg_cb, d);
      printf("deg=%lu,%lu,%lu A=", d[0], d[1], d[2]); print_all_values(A, K);
      printf(" R="); print_all_values(R1, K);
      if (!same_poly_print(R1, R3)) printf(" MISMATCH-alias");
      /* reducing again must not change anything */
      lp_polynomial_t* R4 = lp_polynomial_new(ctx);
      lp_polynomial_reduce_degree_Zp(R4, R1);
      if (!same_poly_print(R1, R4)) printf(" MISMATCH-not-idempotent");
      lp_polynomial_delete(R4);
      /* the result must be in canonical form: compare it, its main variable, degree, constant-ness and hash/eq with
       * the reference polynomial rebuilt from its non-zero monomials */
      {
        rebuild_t rb; rb.ctx = ctx; rb.acc = lp_polynomial_new(ctx);
        lp_polynomial_traverse(R1, rebuild_cb, &rb);
        int c1 = lp_polynomial_is_constant(R1) ? 1 : 0, c2 = lp_polynomial_is_constant(rb.acc) ? 1 : 0;
        if (c1 != c2) printf(" MISMATCH-is_constant=%d(reference %d)", c1, c2);
        if (!c1 && !c2) {
          if (lp_polynomial_top_variable(R1) != lp_polynomial_top_variable(rb.acc)) printf(" MISMATCH-top-variable");
          if (lp_polynomial_degree(R1) != lp_polynomial_degree(rb.acc))
            printf(" MISMATCH-degree=%zu(reference %zu)", lp_polynomial_degree(R1), lp_polynomial_degree(rb.acc));
        }
        if (lp_polynomial_cmp(R1, rb.acc) != 0) printf(" MISMATCH-cmp-with-reference");
        if (!lp_polynomial_eq(R1, rb.acc)) printf(" MISMATCH-eq-with-reference");
        lp_polynomial_delete(rb.acc);
      }
      lp_polynomial_delete(A); lp_polynomial_delete(R1); lp_polynomial_delete(R3);
      lp_polynomial_context_detach(ctx);
    } else {
      printf("UNKNOWN-OP");
    }
    lp_int_ring_detach(K);
    end_case();
    if (g_child) _exit(0);
    alarm(0);
  }
  lp_variable_order_detach(g_order);
  lp_variable_db_detach(g_db);
  free(vline);
  return 0;
}
