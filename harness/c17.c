/* C17 driver: scalar numbers (integer.h / rational.h / dyadic_rational.h through the public lp_* API and,
 * where there is no public entry point, the internal inline functions). */
#include "common.h"
#include <integer.h>
#include <rational.h>
#include <dyadic_rational.h>
#include "number/integer.h"
#include "number/rational.h"
#include "number/dyadic_rational.h"

static lp_int_ring_t* mkring(const char* m, int prime) {
  if (strcmp(m, "0") == 0) return lp_Z;
  lp_integer_t M; mpz_init_set_str(&M, m, 10);
  /* is_prime must agree with the probabilistic test (asserted in the library) */
  int pr = mpz_probab_prime_p(&M, 25) ? 1 : 0; (void)prime;
  lp_int_ring_t* K = lp_int_ring_create(&M, pr);
  mpz_clear(&M);
  return K;
}
static void rmring(lp_int_ring_t* K) { if (K) lp_int_ring_detach(K); }

static void pdy(const lp_dyadic_rational_t* d) { print_z(&d->a); printf("/%lu", d->n); }
static void pq(const lp_rational_t* q) { print_z(mpq_numref(q)); putchar('/'); print_z(mpq_denref(q)); }

static void setdy(lp_dyadic_rational_t* d, const char* a, const char* n) {
  /* raw construction of a (normalised) dyadic given by the generator */
  lp_dyadic_rational_construct(d); mpz_set_str(&d->a, a, 10); d->n = strtoul(n, NULL, 10);
}
static void setq(lp_rational_t* q, const char* a, const char* b) {
  lp_integer_t n, d; mpz_init_set_str(&n, a, 10); mpz_init_set_str(&d, b, 10);
  lp_rational_construct_from_div(q, &n, &d); mpz_clear(&n); mpz_clear(&d);
}

typedef void (*dy2)(lp_dyadic_rational_t*, const lp_dyadic_rational_t*, const lp_dyadic_rational_t*);

/* run a binary dyadic op with fresh / pre-used / aliased-with-a / aliased-with-b outputs */
static void four2(dy2 f, int base) {
  lp_dyadic_rational_t a, b, r;
  setdy(&a, vtok[base], vtok[base+1]); setdy(&b, vtok[base+2], vtok[base+3]);
  lp_dyadic_rational_construct(&r); f(&r, &a, &b); pdy(&r); lp_dyadic_rational_destruct(&r); putchar(' ');
  setdy(&r, vtok[base+4], vtok[base+5]); f(&r, &a, &b); pdy(&r); lp_dyadic_rational_destruct(&r); putchar(' ');
  { lp_dyadic_rational_t a2; lp_dyadic_rational_construct_copy(&a2, &a); f(&a2, &a2, &b); pdy(&a2); lp_dyadic_rational_destruct(&a2); putchar(' '); }
  { lp_dyadic_rational_t b2; lp_dyadic_rational_construct_copy(&b2, &b); f(&b2, &a, &b2); pdy(&b2); lp_dyadic_rational_destruct(&b2); }
  lp_dyadic_rational_destruct(&a); lp_dyadic_rational_destruct(&b);
}

static unsigned long g_n; static lp_integer_t g_z;
static void op_neg(lp_dyadic_rational_t* r, const lp_dyadic_rational_t* a) { lp_dyadic_rational_neg(r, a); }
static void op_addint(lp_dyadic_rational_t* r, const lp_dyadic_rational_t* a) { lp_dyadic_rational_add_integer(r, a, &g_z); }
static void op_mul2exp(lp_dyadic_rational_t* r, const lp_dyadic_rational_t* a) { lp_dyadic_rational_mul_2exp(r, a, g_n); }
static void op_div2exp(lp_dyadic_rational_t* r, const lp_dyadic_rational_t* a) { lp_dyadic_rational_div_2exp(r, a, g_n); }
static void op_pow(lp_dyadic_rational_t* r, const lp_dyadic_rational_t* a) { lp_dyadic_rational_pow(r, a, g_n); }
typedef void (*dy1)(lp_dyadic_rational_t*, const lp_dyadic_rational_t*);
static void four1(dy1 f, int ua) {
  lp_dyadic_rational_t a, r;
  setdy(&a, vtok[1], vtok[2]);
  lp_dyadic_rational_construct(&r); f(&r, &a); pdy(&r); lp_dyadic_rational_destruct(&r); putchar(' ');
  setdy(&r, vtok[ua], vtok[ua+1]); f(&r, &a); pdy(&r); lp_dyadic_rational_destruct(&r); putchar(' ');
  { lp_dyadic_rational_t a2; lp_dyadic_rational_construct_copy(&a2, &a); f(&a2, &a2); pdy(&a2); lp_dyadic_rational_destruct(&a2); }
  lp_dyadic_rational_destruct(&a);
}

/* integer op with the result written three ways: fresh, pre-used (big junk), aliased with a; all three
 * must agree - the agreed value is printed once, else all three (which then differs from the model) */
#define I3(CALL_FRESH, CALL_ALIAS)                                                     \
  do { lp_integer_t r1, r2, r3;                                                        \
    lp_integer_construct(&r1); { lp_integer_t* r = &r1; CALL_FRESH; }                  \
    mpz_init_set_str(&r2, "-123456789012345678901234567890123", 10); { lp_integer_t* r = &r2; CALL_FRESH; } \
    lp_integer_construct_copy(lp_Z, &r3, &a); { lp_integer_t* r = &r3; CALL_ALIAS; }   \
    if (mpz_cmp(&r1, &r2) == 0 && mpz_cmp(&r1, &r3) == 0) print_z(&r1);                \
    else { printf("MISMATCH fresh="); print_z(&r1); printf(" used="); print_z(&r2); printf(" alias="); print_z(&r3); } \
    mpz_clear(&r1); mpz_clear(&r2); mpz_clear(&r3); } while (0)

int main(void) {
  mpz_init(&g_z);
  while (next_case()) {
    if (vntok == 0) { end_case(); continue; }
    const char* op = vtok[0];
    if (op[0] == 'i' || strcmp(op, "ringbounds") == 0) {
      if (is_op("idivZ")) {
        lp_integer_t a, b, q, r; mpz_init_set_str(&a, vtok[1], 10); mpz_init_set_str(&b, vtok[2], 10); mpz_init(&q); mpz_init(&r);
        lp_integer_div_rem_Z(&q, &r, &a, &b); print_z(&q); putchar(' '); print_z(&r);
        mpz_clear(&a); mpz_clear(&b); mpz_clear(&q); mpz_clear(&r); end_case(); continue;
      }
      if (is_op("igcd")) {
        lp_integer_t a, b, g, l; mpz_init_set_str(&a, vtok[1], 10); mpz_init_set_str(&b, vtok[2], 10); mpz_init(&g); mpz_init(&l);
        lp_integer_gcd_Z(&g, &a, &b); lp_integer_lcm_Z(&l, &a, &b); print_z(&g); putchar(' '); print_z(&l);
        mpz_clear(&a); mpz_clear(&b); mpz_clear(&g); mpz_clear(&l); end_case(); continue;
      }
      if (is_op("isqrt")) {
        lp_integer_t a, s; mpz_init_set_str(&a, vtok[1], 10); mpz_init(&s); lp_integer_sqrt_Z(&s, &a); print_z(&s);
        mpz_clear(&a); mpz_clear(&s); end_case(); continue;
      }
      if (is_op("ringbounds")) {
        lp_int_ring_t* K = mkring(vtok[1], 0); print_z(&K->lb); putchar(' '); print_z(&K->ub); rmring(K); end_case(); continue;
      }
      lp_int_ring_t* K = mkring(vtok[1], 0);
      lp_integer_t a, b, s; mpz_init(&a); mpz_init(&b); mpz_init(&s);
      if (is_op("inorm")) {
        /* normalisation of an arbitrary integer: construct_copy / assign / construct_from_string */
        lp_integer_t x, r1, r2, r3; mpz_init_set_str(&x, vtok[2], 10);
        lp_integer_construct_copy(K, &r1, &x);
        mpz_init_set_si(&r2, 77); lp_integer_assign(K, &r2, &x);
        lp_integer_construct_from_string(K, &r3, vtok[2], 10);
        if (mpz_cmp(&r1, &r2) == 0 && mpz_cmp(&r1, &r3) == 0) print_z(&r1);
        else { printf("MISMATCH copy="); print_z(&r1); printf(" assign="); print_z(&r2); printf(" string="); print_z(&r3); }
        mpz_clear(&x); mpz_clear(&r1); mpz_clear(&r2); mpz_clear(&r3);
      } else if (is_op("iaddmul") || is_op("isubmul") || is_op("iaddmulint")) {
        mpz_set_str(&s, vtok[2], 10); mpz_set_str(&a, vtok[3], 10); mpz_set_str(&b, vtok[4], 10);
        if (is_op("iaddmul")) lp_integer_add_mul(K, &s, &a, &b);
        else if (is_op("isubmul")) lp_integer_sub_mul(K, &s, &a, &b);
        else lp_integer_add_mul_int(K, &s, &a, (int) mpz_get_si(&b));
        print_z(&s);
      } else {
        mpz_set_str(&a, vtok[2], 10);
        if (vntok > 3 && !is_op("idivides")) mpz_set_str(&b, vtok[3], 10);
        if (is_op("iadd")) I3(lp_integer_add(K, r, &a, &b), lp_integer_add(K, r, r, &b));
        else if (is_op("isub")) I3(lp_integer_sub(K, r, &a, &b), lp_integer_sub(K, r, r, &b));
        else if (is_op("imul")) I3(lp_integer_mul(K, r, &a, &b), lp_integer_mul(K, r, r, &b));
        else if (is_op("ineg")) I3(lp_integer_neg(K, r, &a), lp_integer_neg(K, r, r));
        else if (is_op("iabs")) I3(lp_integer_abs(K, r, &a), lp_integer_abs(K, r, r));
        else if (is_op("ipow")) { unsigned n = (unsigned) mpz_get_ui(&b); I3(lp_integer_pow(K, r, &a, n), lp_integer_pow(K, r, r, n)); }
        else if (is_op("imulpow2")) { unsigned n = (unsigned) mpz_get_ui(&b); I3(lp_integer_mul_pow2(K, r, &a, n), lp_integer_mul_pow2(K, r, r, n)); }
        else if (is_op("imulint")) { long n = mpz_get_si(&b); I3(lp_integer_mul_int(K, r, &a, n), lp_integer_mul_int(K, r, r, n)); }
        else if (is_op("iinc")) { lp_integer_inc(K, &a); print_z(&a); }
        else if (is_op("idec")) { lp_integer_dec(K, &a); print_z(&a); }
        else if (is_op("isgn")) printf("%d", sgn_of(lp_integer_sgn(K, &a)));
        else if (is_op("icmp")) printf("%d", sgn_of(lp_integer_cmp(K, &a, &b)));
        else if (is_op("icmpint")) printf("%d", sgn_of(lp_integer_cmp_int(K, &a, mpz_get_si(&b))));
        else if (is_op("iiszero")) printf("%d", lp_integer_is_zero(K, &a) ? 1 : 0);
        else if (is_op("iinring")) printf("%d", lp_integer_in_ring(K, &a) ? 1 : 0);
        else if (is_op("iinv")) I3(lp_integer_inv(K, r, &a), lp_integer_inv(K, r, r));
        else if (is_op("idivides")) { mpz_set_str(&a, vtok[3], 10); mpz_set_str(&b, vtok[4], 10); printf("%d", lp_integer_divides(K, &a, &b) ? 1 : 0); }
        else if (is_op("idivexact")) I3(lp_integer_div_exact(K, r, &a, &b), lp_integer_div_exact(K, r, r, &b));
        else printf("UNKNOWN-OP");
      }
      mpz_clear(&a); mpz_clear(&b); mpz_clear(&s); rmring(K);
      end_case(); continue;
    }
    if (op[0] == 'q') {
      lp_rational_t x, y, r;
      if (is_op("qcons")) {
        /* canonicalising constructor from two integers (den != 0) */
        setq(&r, vtok[1], vtok[2]); pq(&r); lp_rational_destruct(&r); end_case(); continue;
      }
      if (is_op("qfromdy")) {
        lp_dyadic_rational_t d; setdy(&d, vtok[1], vtok[2]); lp_rational_construct_from_dyadic(&r, &d); pq(&r);
        lp_rational_destruct(&r); lp_dyadic_rational_destruct(&d); end_case(); continue;
      }
      setq(&x, vtok[1], vtok[2]);
      int bin = is_op("qadd") || is_op("qsub") || is_op("qmul") || is_op("qdiv") || is_op("qcmp");
      if (bin) setq(&y, vtok[3], vtok[4]);
      if (is_op("qadd") || is_op("qsub") || is_op("qmul") || is_op("qdiv")) {
        void (*f)(lp_rational_t*, const lp_rational_t*, const lp_rational_t*) =
          is_op("qadd") ? lp_rational_add : is_op("qsub") ? lp_rational_sub : is_op("qmul") ? lp_rational_mul : lp_rational_div;
        if (is_op("qdiv") && mpq_sgn(&y) == 0) printf("none");
        else {
          lp_rational_t r2, r3;
          lp_rational_construct(&r); f(&r, &x, &y);
          lp_rational_construct_from_int(&r2, -77, 13); f(&r2, &x, &y);
          lp_rational_construct_copy(&r3, &x); f(&r3, &r3, &y);
          if (mpq_equal(&r, &r2) && mpq_equal(&r, &r3)) pq(&r); else { printf("MISMATCH "); pq(&r); putchar(' '); pq(&r2); putchar(' '); pq(&r3); }
          lp_rational_destruct(&r); lp_rational_destruct(&r2); lp_rational_destruct(&r3);
        }
      } else if (is_op("qneg") || is_op("qinv") || is_op("qpow") || is_op("qmul2exp") || is_op("qdiv2exp") || is_op("qaddint")) {
        if (is_op("qinv") && mpq_sgn(&x) == 0) printf("none");
        else {
          lp_rational_t r2;
          lp_rational_construct(&r); lp_rational_construct_copy(&r2, &x);
          unsigned n = vntok > 3 ? (unsigned) strtoul(vtok[3], NULL, 10) : 0;
          if (is_op("qneg")) { lp_rational_neg(&r, &x); lp_rational_neg(&r2, &r2); }
          else if (is_op("qinv")) { lp_rational_inv(&r, &x); lp_rational_inv(&r2, &r2); }
          else if (is_op("qpow")) { lp_rational_pow(&r, &x, n); lp_rational_pow(&r2, &r2, n); }
          else if (is_op("qmul2exp")) { lp_rational_mul_2exp(&r, &x, n); lp_rational_mul_2exp(&r2, &r2, n); }
          else if (is_op("qdiv2exp")) { lp_rational_div_2exp(&r, &x, n); lp_rational_div_2exp(&r2, &r2, n); }
          else { lp_integer_t z; mpz_init_set_str(&z, vtok[3], 10); lp_rational_add_integer(&r, &x, &z); lp_rational_add_integer(&r2, &r2, &z); mpz_clear(&z); }
          if (mpq_equal(&r, &r2)) pq(&r); else { printf("MISMATCH "); pq(&r); putchar(' '); pq(&r2); }
          lp_rational_destruct(&r); lp_rational_destruct(&r2);
        }
      } else if (is_op("qobs")) {
        lp_integer_t f, c, n, d; mpz_init(&f); mpz_init(&c); mpz_init(&n); mpz_init(&d);
        lp_rational_floor(&x, &f); lp_rational_ceiling(&x, &c); lp_rational_get_num(&x, &n); lp_rational_get_den(&x, &d);
        printf("%d ", sgn_of(lp_rational_sgn(&x))); print_z(&f); putchar(' '); print_z(&c);
        printf(" %d ", lp_rational_is_integer(&x) ? 1 : 0); print_z(&n); putchar(' '); print_z(&d);
        mpz_clear(&f); mpz_clear(&c); mpz_clear(&n); mpz_clear(&d);
      } else if (is_op("qcmp")) printf("%d", sgn_of(lp_rational_cmp(&x, &y)));
      else if (is_op("qcmpint")) { lp_integer_t z; mpz_init_set_str(&z, vtok[3], 10); printf("%d", sgn_of(lp_rational_cmp_integer(&x, &z))); mpz_clear(&z); }
      else if (is_op("qcmpdy")) { lp_dyadic_rational_t d; setdy(&d, vtok[3], vtok[4]); printf("%d", sgn_of(lp_rational_cmp_dyadic_rational(&x, &d))); lp_dyadic_rational_destruct(&d); }
      else printf("UNKNOWN-OP");
      lp_rational_destruct(&x); if (bin) lp_rational_destruct(&y);
      end_case(); continue;
    }
    if (op[0] == 'd') {
      if (is_op("dfromd")) {
        /* construction from a double given as a C99 hex float; dyadic and rational constructors, then back */
        double x = strtod(vtok[1], NULL);
        lp_dyadic_rational_t d; lp_dyadic_rational_construct_from_double(&d, x);
        lp_rational_t q; lp_rational_construct_from_double(&q, x);
        pdy(&d); putchar(' '); pq(&q);
        printf(" %d %d", lp_dyadic_rational_to_double(&d) == x, lp_rational_to_double(&q) == x);
        lp_dyadic_rational_destruct(&d); lp_rational_destruct(&q);
      }
      else if (is_op("dcons")) {
        /* a fits long by construction of the generator for this op */
        lp_dyadic_rational_t d; lp_dyadic_rational_construct_from_int(&d, strtol(vtok[1], NULL, 10), strtoul(vtok[2], NULL, 10));
        lp_dyadic_rational_t d2; lp_dyadic_rational_construct(&d2); lp_dyadic_rational_assign_int(&d2, strtol(vtok[1], NULL, 10), strtoul(vtok[2], NULL, 10));
        if (mpz_cmp(&d.a, &d2.a) == 0 && d.n == d2.n) pdy(&d); else { printf("MISMATCH "); pdy(&d); putchar(' '); pdy(&d2); }
        lp_dyadic_rational_destruct(&d); lp_dyadic_rational_destruct(&d2);
      }
      else if (is_op("dadd")) four2(lp_dyadic_rational_add, 1);
      else if (is_op("dsub")) four2(lp_dyadic_rational_sub, 1);
      else if (is_op("dmul")) four2(lp_dyadic_rational_mul, 1);
      else if (is_op("dneg")) four1(op_neg, 3);
      else if (is_op("daddint")) { mpz_set_str(&g_z, vtok[3], 10); four1(op_addint, 4); }
      else if (is_op("dmul2exp")) { g_n = strtoul(vtok[3], NULL, 10); four1(op_mul2exp, 4); }
      else if (is_op("ddiv2exp")) { g_n = strtoul(vtok[3], NULL, 10); four1(op_div2exp, 4); }
      else if (is_op("dpow")) { g_n = strtoul(vtok[3], NULL, 10); four1(op_pow, 4); }
      else if (is_op("dobs")) {
        lp_dyadic_rational_t d; setdy(&d, vtok[1], vtok[2]);
        lp_integer_t f, c, n, dd; mpz_init(&f); mpz_init(&c); mpz_init(&n); mpz_init(&dd);
        lp_dyadic_rational_floor(&d, &f); lp_dyadic_rational_ceiling(&d, &c); lp_dyadic_rational_get_num(&d, &n); lp_dyadic_rational_get_den(&d, &dd);
        printf("%d ", sgn_of(lp_dyadic_rational_sgn(&d))); print_z(&f); putchar(' '); print_z(&c);
        printf(" %d ", lp_dyadic_rational_is_integer(&d) ? 1 : 0); print_z(&n); putchar(' '); print_z(&dd);
        printf(" %d", dyadic_rational_is_normalized(&d) ? 1 : 0);
        mpz_clear(&f); mpz_clear(&c); mpz_clear(&n); mpz_clear(&dd); lp_dyadic_rational_destruct(&d);
      }
      else if (is_op("dcmp")) { lp_dyadic_rational_t a, b; setdy(&a, vtok[1], vtok[2]); setdy(&b, vtok[3], vtok[4]);
        printf("%d", sgn_of(lp_dyadic_rational_cmp(&a, &b))); lp_dyadic_rational_destruct(&a); lp_dyadic_rational_destruct(&b); }
      else if (is_op("dcmpint")) { lp_dyadic_rational_t a; lp_integer_t z; setdy(&a, vtok[1], vtok[2]); mpz_init_set_str(&z, vtok[3], 10);
        printf("%d", sgn_of(lp_dyadic_rational_cmp_integer(&a, &z))); lp_dyadic_rational_destruct(&a); mpz_clear(&z); }
      else if (is_op("dcmprat")) { lp_dyadic_rational_t a; lp_rational_t q; setdy(&a, vtok[1], vtok[2]); setq(&q, vtok[3], vtok[4]);
        printf("%d", sgn_of(lp_dyadic_rational_cmp_rational(&a, &q))); lp_dyadic_rational_destruct(&a); lp_rational_destruct(&q); }
      else if (is_op("droot")) {
        lp_dyadic_rational_t a, r; setdy(&a, vtok[1], vtok[2]); setdy(&r, "5", "3");
        int ex = dyadic_rational_root_approx(&r, &a, strtoul(vtok[3], NULL, 10), strtoul(vtok[4], NULL, 10), atoi(vtok[5]));
        pdy(&r); printf(" %d", ex ? 1 : 0); lp_dyadic_rational_destruct(&a); lp_dyadic_rational_destruct(&r);
      }
      else if (is_op("dbetween")) {
        lp_rational_t a, b; lp_dyadic_rational_t v; setq(&a, vtok[1], vtok[2]); setq(&b, vtok[3], vtok[4]); setdy(&v, "-7", "2");
        dyadic_rational_get_value_between(&v, &a, &b); pdy(&v);
        lp_rational_destruct(&a); lp_rational_destruct(&b); lp_dyadic_rational_destruct(&v);
      }
      else printf("UNKNOWN-OP");
      end_case(); continue;
    }
    printf("UNKNOWN-OP"); end_case();
  }
  mpz_clear(&g_z);
  free(vline);
  return 0;
}
