/* Shared helpers of the /verif C drivers: one case per input line, one result line per case.
 * Built against /repo's working tree (public headers in include/, internal ones in src/). */
#pragma once
#include <stdio.h>
#include <stdlib.h>
#include <string.h>
#include <gmp.h>
#include <poly.h>

#define MAXTOK 4096
static char* vtok[MAXTOK];
static int vntok;
static char* vline = NULL;
static size_t vcap = 0;

/* read next line, split on blanks. returns 0 on EOF */
static int next_case(void) {
  ssize_t n = getline(&vline, &vcap, stdin);
  if (n < 0) return 0;
  while (n > 0 && (vline[n-1] == '\n' || vline[n-1] == '\r')) vline[--n] = 0;
  vntok = 0;
  char* save = NULL;
  for (char* t = strtok_r(vline, " ", &save); t && vntok < MAXTOK; t = strtok_r(NULL, " ", &save)) vtok[vntok++] = t;
  return 1;
}
static int is_op(const char* s) { return vntok > 0 && strcmp(vtok[0], s) == 0; }
static void end_case(void) { putchar('\n'); fflush(stdout); }
static int sgn_of(int x) { return x < 0 ? -1 : (x > 0 ? 1 : 0); }
static void print_z(const mpz_t z) { mpz_out_str(stdout, 10, z); }
