/* C03 driver: gcd / lcm / content / primitive part / extended gcd / Bezout.
 *   univariate (dense text c0,c1,..,cn low degree first; "0" = zero; M = 0 for Z or a prime):
 *     ugcd M MODE A B        -> gcd                         (lp_upolynomial_gcd, both argument orders are separate cases)
 *     ustrat A B             -> heuristic(2) subresultant   (internal strategies called directly; Z, deg A >= deg B, B != 0;
 *                                                            heuristic prints "none" when it gives up)
 *     ueuclid P A B          -> g u v                       (upolynomial_gcd_euclid extended, called directly; deg A >= deg B, B != 0)
 *     uext P A B             -> g u v                       (lp_upolynomial_extended_gcd)
 *     ubez P A B R           -> u v                         (lp_upolynomial_solve_bezout)
 *     ucont A                -> content pp(primitive_part_Z) pp(make_primitive_Z in place) is_primitive
 *   multivariate over Z (canonical text of polyio.h; ORD = permutation "2,0,1" bottom variable first):
 *     mgcd ORD MODE A B G0   -> g(fresh) g(pre-used output) g(output aliased with A) g(output aliased with B)
 *     mlcm ORD MODE A B      -> l(fresh) l(output aliased with A) l(output aliased with B)
 *     mppc ORD A             -> pp cont (pp_cont)  pp (pp)  cont (cont)  pp(pp_cont with pp aliased to A)
 *   MODE is the verification-only strategy switch lp_verif_gcd_mode (bit 0: skip the heuristic univariate gcd,
 *   bit 1: skip the univariate-specialisation shortcut).  It is only touched when the case asks for MODE != 0;
 *   when the library was built without the hook the answer is "NOHOOK" (the model then answers SKIP). */
#include "polyio.h"
#include <upolynomial.h>
#include "upolynomial/gcd.h"

extern int lp_verif_gcd_mode __attribute__((weak));

static int set_mode(const char* m) {
  int mode = atoi(m);
  if (mode == 0) { if (&lp_verif_gcd_mode) lp_verif_gcd_mode = 0; return 1; }
  if (!&lp_verif_gcd_mode) return 0;
  lp_verif_gcd_mode = mode;
  return 1;
}
static void clear_mode(void) { if (&lp_verif_gcd_mode) lp_verif_gcd_mode = 0; }

static lp_int_ring_t* mkring(const char* m) {
  if (strcmp(m, "0") == 0) return lp_Z;
  lp_integer_t M; mpz_init_set_str(&M, m, 10);
  int pr = mpz_probab_prime_p(&M, 25) ? 1 : 0;
  lp_int_ring_t* K = lp_int_ring_create(&M, pr);
  mpz_clear(&M);
  return K;
}
static void rmring(lp_int_ring_t* K) { if (K) lp_int_ring_detach(K); }

/* dense text -> upolynomial in K */
static lp_upolynomial_t* up_parse(lp_int_ring_t* K, const char* s) {
  size_t n = 1; for (const char* c = s; *c; ++c) if (*c == ',') ++n;
  lp_integer_t* cs = malloc(n * sizeof(lp_integer_t));
  const char* c = s;
  for (size_t i = 0; i < n; ++i) {
    const char* e = c; while (*e && *e != ',') ++e;
    char* num = strndup(c, (size_t)(e - c));
    mpz_init_set_str(&cs[i], num, 10); free(num);
    c = (*e == ',') ? e + 1 : e;
  }
  lp_upolynomial_t* p = lp_upolynomial_construct(K, n - 1, cs);
  for (size_t i = 0; i < n; ++i) mpz_clear(&cs[i]);
  free(cs);
  return p;
}
static void up_print(const lp_upolynomial_t* p) {
  if (!p) { printf("null"); return; }
  size_t d = lp_upolynomial_degree(p);
  lp_integer_t* cs = malloc((d + 1) * sizeof(lp_integer_t));
  for (size_t i = 0; i <= d; ++i) mpz_init(&cs[i]);
  lp_upolynomial_unpack(p, cs);
  for (size_t i = 0; i <= d; ++i) { if (i) putchar(','); print_z(&cs[i]); mpz_clear(&cs[i]); }
  free(cs);
}

static void set_order_from(const char* s) {
  int perm[PIO_NV]; int n = 0;
  const char* c = s;
  while (*c && n < PIO_NV) { perm[n++] = (int) strtol(c, (char**)&c, 10); if (*c == ',') ++c; }
  pio_set_order(perm, n);
}

int main(void) {
  pio_init(lp_Z);
  while (next_case()) {
    if (vntok == 0) { end_case(); continue; }
    if (is_op("ugcd") && vntok == 5) {
      if (!set_mode(vtok[2])) { printf("NOHOOK"); end_case(); continue; }
      lp_int_ring_t* K = mkring(vtok[1]);
      lp_upolynomial_t* a = up_parse(K, vtok[3]); lp_upolynomial_t* b = up_parse(K, vtok[4]);
      lp_upolynomial_t* g = lp_upolynomial_gcd(a, b);
      up_print(g);
      lp_upolynomial_delete(g); lp_upolynomial_delete(a); lp_upolynomial_delete(b); rmring(K);
      clear_mode();
    } else if (is_op("ustrat") && vntok == 3) {
      lp_upolynomial_t* a = up_parse(lp_Z, vtok[1]); lp_upolynomial_t* b = up_parse(lp_Z, vtok[2]);
      lp_upolynomial_t* h = upolynomial_gcd_heuristic(a, b, 2);
      lp_upolynomial_t* s = upolynomial_gcd_subresultant(a, b);
      if (h) up_print(h); else printf("none");
      putchar(' '); up_print(s);
      if (h) lp_upolynomial_delete(h);
      lp_upolynomial_delete(s); lp_upolynomial_delete(a); lp_upolynomial_delete(b);
    } else if (is_op("ueuclid") && vntok == 4) {
      lp_int_ring_t* K = mkring(vtok[1]);
      lp_upolynomial_t* a = up_parse(K, vtok[2]); lp_upolynomial_t* b = up_parse(K, vtok[3]);
      lp_upolynomial_t *u = 0, *v = 0;
      lp_upolynomial_t* g = upolynomial_gcd_euclid(a, b, &u, &v);
      lp_upolynomial_t* g2 = upolynomial_gcd_euclid(a, b, 0, 0);
      if (lp_upolynomial_cmp(g, g2) != 0) printf("MISMATCH-plain-vs-extended ");
      up_print(g); putchar(' '); up_print(u); putchar(' '); up_print(v);
      lp_upolynomial_delete(g); lp_upolynomial_delete(g2); lp_upolynomial_delete(u); lp_upolynomial_delete(v);
      lp_upolynomial_delete(a); lp_upolynomial_delete(b); rmring(K);
    } else if (is_op("uext") && vntok == 4) {
      lp_int_ring_t* K = mkring(vtok[1]);
      lp_upolynomial_t* a = up_parse(K, vtok[2]); lp_upolynomial_t* b = up_parse(K, vtok[3]);
      lp_upolynomial_t *u = 0, *v = 0;
      lp_upolynomial_t* g = lp_upolynomial_extended_gcd(a, b, &u, &v);
      up_print(g); putchar(' '); up_print(u); putchar(' '); up_print(v);
      lp_upolynomial_delete(g); if (u) lp_upolynomial_delete(u); if (v) lp_upolynomial_delete(v);
      lp_upolynomial_delete(a); lp_upolynomial_delete(b); rmring(K);
    } else if (is_op("ubez") && vntok == 5) {
      lp_int_ring_t* K = mkring(vtok[1]);
      lp_upolynomial_t* a = up_parse(K, vtok[2]); lp_upolynomial_t* b = up_parse(K, vtok[3]);
      lp_upolynomial_t* r = up_parse(K, vtok[4]);
      lp_upolynomial_t *u = 0, *v = 0;
      lp_upolynomial_solve_bezout(a, b, r, &u, &v);
      up_print(u); putchar(' '); up_print(v);
      if (u) lp_upolynomial_delete(u); if (v) lp_upolynomial_delete(v);
      lp_upolynomial_delete(a); lp_upolynomial_delete(b); lp_upolynomial_delete(r); rmring(K);
    } else if (is_op("ucont") && vntok == 2) {
      lp_upolynomial_t* a = up_parse(lp_Z, vtok[1]);
      lp_integer_t c; lp_integer_construct(&c);
      lp_upolynomial_content_Z(a, &c);
      lp_upolynomial_t* pp = lp_upolynomial_primitive_part_Z(a);
      lp_upolynomial_t* a2 = lp_upolynomial_construct_copy(a);
      lp_upolynomial_make_primitive_Z(a2);
      print_z(&c); putchar(' '); up_print(pp); putchar(' '); up_print(a2);
      printf(" %d", lp_upolynomial_is_primitive(a) ? 1 : 0);
      lp_integer_destruct(&c);
      lp_upolynomial_delete(pp); lp_upolynomial_delete(a2); lp_upolynomial_delete(a);
    } else if (is_op("mgcd") && vntok == 6) {
      if (!set_mode(vtok[2])) { printf("NOHOOK"); end_case(); continue; }
      set_order_from(vtok[1]);
      lp_polynomial_t* a = pio_new(vtok[3]); lp_polynomial_t* b = pio_new(vtok[4]);
      lp_polynomial_t* g = lp_polynomial_new(pio_ctx);
      lp_polynomial_gcd(g, a, b); pio_print(g); putchar(' ');
      lp_polynomial_t* used = pio_new("7*x0^3*x1^2+-5*x2^4+11");
      lp_polynomial_gcd(used, a, b); pio_print(used); putchar(' ');
      lp_polynomial_t* a2 = lp_polynomial_new_copy(a);
      lp_polynomial_gcd(a2, a2, b); pio_print(a2); putchar(' ');
      lp_polynomial_t* b2 = lp_polynomial_new_copy(b);
      lp_polynomial_gcd(b2, a, b2); pio_print(b2);
      lp_polynomial_delete(a); lp_polynomial_delete(b); lp_polynomial_delete(g); lp_polynomial_delete(used);
      lp_polynomial_delete(a2); lp_polynomial_delete(b2);
      clear_mode();
    } else if (is_op("mlcm") && vntok == 5) {
      if (!set_mode(vtok[2])) { printf("NOHOOK"); end_case(); continue; }
      set_order_from(vtok[1]);
      lp_polynomial_t* a = pio_new(vtok[3]); lp_polynomial_t* b = pio_new(vtok[4]);
      lp_polynomial_t* l = lp_polynomial_new(pio_ctx);
      lp_polynomial_lcm(l, a, b); pio_print(l); putchar(' ');
      lp_polynomial_t* a2 = lp_polynomial_new_copy(a);
      lp_polynomial_lcm(a2, a2, b); pio_print(a2); putchar(' ');
      lp_polynomial_t* b2 = lp_polynomial_new_copy(b);
      lp_polynomial_lcm(b2, a, b2); pio_print(b2);
      lp_polynomial_delete(a); lp_polynomial_delete(b); lp_polynomial_delete(l); lp_polynomial_delete(a2); lp_polynomial_delete(b2);
      clear_mode();
    } else if (is_op("mppc") && vntok == 3) {
      set_order_from(vtok[1]);
      lp_polynomial_t* a = pio_new(vtok[2]);
      lp_polynomial_t* pp = lp_polynomial_new(pio_ctx); lp_polynomial_t* ct = lp_polynomial_new(pio_ctx);
      lp_polynomial_pp_cont(pp, ct, a); pio_print(pp); putchar(' '); pio_print(ct); putchar(' ');
      lp_polynomial_t* pp1 = pio_new("3*x1^2+-1*x0^1"); lp_polynomial_t* ct1 = pio_new("1*x2^2+1");
      lp_polynomial_pp(pp1, a); lp_polynomial_cont(ct1, a); pio_print(pp1); putchar(' '); pio_print(ct1); putchar(' ');
      lp_polynomial_t* a2 = lp_polynomial_new_copy(a); lp_polynomial_t* ct2 = lp_polynomial_new(pio_ctx);
      lp_polynomial_pp_cont(a2, ct2, a2); pio_print(a2);
      lp_polynomial_delete(a); lp_polynomial_delete(pp); lp_polynomial_delete(ct); lp_polynomial_delete(pp1);
      lp_polynomial_delete(ct1); lp_polynomial_delete(a2); lp_polynomial_delete(ct2);
    } else {
      printf("UNKNOWN-OP");
    }
    end_case();
  }
  free(vline); free(pio_terms);
  pio_done();
  return 0;
}
