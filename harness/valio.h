/* Shared value text I/O of the /verif C drivers (numbers of every representation).
 * INPUT tokens (generator -> both drivers):
 *   z:<int>                          integer value
 *   d:<a>/<n>                        dyadic rational a/2^n (normalised)
 *   q:<num>/<den>                    rational (canonical)
 *   r:<c0,c1,...,cn>:<k>             the k-th (0-based, increasing) real root of the integer polynomial
 *                                    c0 + c1 x + ... (built with lp_upolynomial_roots_isolate)
 *   a:<c0,...,cn>:<la>/<ln>:<ha>/<hn>  algebraic number from a primitive polynomial with non-zero constant term
 *                                    and an open dyadic interval (la/2^ln, ha/2^hn) with a sign change
 *   -inf  +inf
 * OUTPUT (C -> model), printed from the representation the library holds:
 *   z:.. d:a/n q:n/d  p:a/n (algebraic number that is a dyadic point)  a:<coeffs>:<la>/<ln>:<ha>/<hn>[:sa:sb]
 *   -inf +inf none */
#pragma once
#include "common.h"
#include <value.h>
#include <upolynomial.h>
#include <algebraic_number.h>
#include <dyadic_interval.h>
#include <rational.h>
#include <dyadic_rational.h>
#include <integer.h>

static lp_upolynomial_t* vio_upoly(const char* s, const char** end) {
  /* "c0,c1,...,cn" up to ':' or end */
  size_t cap = 8, n = 0; lp_integer_t* cs = malloc(cap * sizeof(lp_integer_t));
  const char* c = s;
  for (;;) {
    const char* e = c; if (*e == '-') ++e; while (*e >= '0' && *e <= '9') ++e;
    char* num = strndup(c, (size_t)(e - c));
    if (n == cap) { cap *= 2; cs = realloc(cs, cap * sizeof(lp_integer_t)); }
    lp_integer_construct_from_string(lp_Z, &cs[n++], num, 10); free(num);
    c = e; if (*c == ',') { ++c; continue; } break;
  }
  while (n > 1 && mpz_sgn(&cs[n-1]) == 0) { lp_integer_destruct(&cs[n-1]); --n; }
  lp_upolynomial_t* p = lp_upolynomial_construct(lp_Z, n - 1, cs);
  for (size_t i = 0; i < n; ++i) lp_integer_destruct(&cs[i]);
  free(cs);
  if (end) *end = c;
  return p;
}
static void vio_dyadic(lp_dyadic_rational_t* d, const char* s, const char** end) {
  const char* e = s; if (*e == '-') ++e; while (*e >= '0' && *e <= '9') ++e;
  char* num = strndup(s, (size_t)(e - s));
  lp_dyadic_rational_construct(d); mpz_set_str(&d->a, num, 10); free(num);
  ++e; /* '/' */
  d->n = strtoul(e, (char**)&e, 10);
  if (end) *end = e;
}

/* constructs v from the token; returns 0 on a malformed / unsatisfiable token (k-th root does not exist) */
static int vio_parse(lp_value_t* v, const char* tok) {
  if (strcmp(tok, "-inf") == 0) { lp_value_construct(v, LP_VALUE_MINUS_INFINITY, NULL); return 1; }
  if (strcmp(tok, "+inf") == 0) { lp_value_construct(v, LP_VALUE_PLUS_INFINITY, NULL); return 1; }
  if (tok[0] == 'z') { lp_integer_t z; lp_integer_construct_from_string(lp_Z, &z, tok + 2, 10); lp_value_construct(v, LP_VALUE_INTEGER, &z); lp_integer_destruct(&z); return 1; }
  if (tok[0] == 'd') { lp_dyadic_rational_t d; vio_dyadic(&d, tok + 2, NULL); lp_value_construct(v, LP_VALUE_DYADIC_RATIONAL, &d); lp_dyadic_rational_destruct(&d); return 1; }
  if (tok[0] == 'q') {
    const char* s = strchr(tok, '/'); char* num = strndup(tok + 2, (size_t)(s - tok - 2));
    lp_integer_t n, d; lp_integer_construct_from_string(lp_Z, &n, num, 10); lp_integer_construct_from_string(lp_Z, &d, s + 1, 10); free(num);
    lp_rational_t q; lp_rational_construct_from_div(&q, &n, &d); lp_value_construct(v, LP_VALUE_RATIONAL, &q);
    lp_rational_destruct(&q); lp_integer_destruct(&n); lp_integer_destruct(&d); return 1;
  }
  if (tok[0] == 'r') {
    const char* e; lp_upolynomial_t* f = vio_upoly(tok + 2, &e); size_t k = strtoul(e + 1, NULL, 10);
    size_t deg = lp_upolynomial_degree(f), n = 0;
    lp_algebraic_number_t* roots = malloc((deg + 1) * sizeof(lp_algebraic_number_t));
    lp_upolynomial_roots_isolate(f, roots, &n);
    int ok = k < n;
    if (ok) lp_value_construct(v, LP_VALUE_ALGEBRAIC, &roots[k]);
    for (size_t i = 0; i < n; ++i) lp_algebraic_number_destruct(&roots[i]);
    free(roots); lp_upolynomial_delete(f);
    return ok;
  }
  if (tok[0] == 'a') {
    const char* e; lp_upolynomial_t* f = vio_upoly(tok + 2, &e);
    lp_dyadic_rational_t lo, hi; vio_dyadic(&lo, e + 1, &e); vio_dyadic(&hi, e + 1, &e);
    lp_dyadic_interval_t I; lp_dyadic_interval_construct(&I, &lo, 1, &hi, 1);
    lp_algebraic_number_t a; lp_algebraic_number_construct(&a, f, &I); /* takes ownership of f */
    lp_value_construct(v, LP_VALUE_ALGEBRAIC, &a);
    lp_algebraic_number_destruct(&a); lp_dyadic_interval_destruct(&I);
    lp_dyadic_rational_destruct(&lo); lp_dyadic_rational_destruct(&hi);
    return 1;
  }
  return 0;
}

static void vio_print_dy(const lp_dyadic_rational_t* d) { print_z(&d->a); printf("/%lu", d->n); }
static void vio_print_upoly(const lp_upolynomial_t* f) {
  size_t deg = lp_upolynomial_degree(f);
  lp_integer_t* cs = malloc((deg + 1) * sizeof(lp_integer_t));
  for (size_t i = 0; i <= deg; ++i) lp_integer_construct(&cs[i]);
  lp_upolynomial_unpack(f, cs);
  for (size_t i = 0; i <= deg; ++i) { if (i) putchar(','); print_z(&cs[i]); lp_integer_destruct(&cs[i]); }
  free(cs);
}
static void vio_print_alg(const lp_algebraic_number_t* a) {
  if (a->f == NULL) { printf("p:"); vio_print_dy(&a->I.a); return; }
  printf("a:"); vio_print_upoly(a->f); putchar(':'); vio_print_dy(&a->I.a); putchar(':'); vio_print_dy(&a->I.b);
  printf(":%d:%d", a->sgn_at_a, a->sgn_at_b);
}
static void vio_print(const lp_value_t* v) {
  switch (v->type) {
  case LP_VALUE_NONE: printf("none"); break;
  case LP_VALUE_INTEGER: printf("z:"); print_z(&v->value.z); break;
  case LP_VALUE_DYADIC_RATIONAL: printf("d:"); vio_print_dy(&v->value.dy_q); break;
  case LP_VALUE_RATIONAL: printf("q:"); print_z(mpq_numref(&v->value.q)); putchar('/'); print_z(mpq_denref(&v->value.q)); break;
  case LP_VALUE_ALGEBRAIC: vio_print_alg(&v->value.a); break;
  case LP_VALUE_PLUS_INFINITY: printf("+inf"); break;
  case LP_VALUE_MINUS_INFINITY: printf("-inf"); break;
  }
}
