/* C20 driver: polynomial containers (polynomial_hash_set.c, polynomial_heap.c, polynomial_vector.c)
 * through the public lp_* API.  One case = one operation sequence on one container over a pool of
 * polynomials  a*x^i*y^j + b  (one lp_polynomial_context per case).
 *
 *   hashes a i j b  a i j b ...            -> the lp_polynomial_hash of every listed polynomial
 *   hs P (a i j b)*P ops...                -> "H h_0 .. h_{P-1}" then per op " ; ret size bits"
 *   hp P (a i j b key)*P ops...            -> per op " ; ret size h<1 iff the array is heap ordered>", then the heap popped to empty
 *   vc P (a i j b)*P ops...                -> per op " ; ret size ids-in-order"
 *   hc M P (a i j b)*P NR ops...           -> set elements that are RESULTS of polynomial operations over Z / Z_M
 *                                             (see run_hc)
 * every line ends with leak=<bytes still allocated after everything of the case was destroyed, minus the
 * bytes allocated before the case> (0 = nothing leaked; measured with the sanitizer allocator interface).  A library call that does not return
 * within the watchdog time (2 s) is abandoned: the line so far + " HANG"; a failing assert of the library:
 * the line so far + " ABORT".  */
#include "common.h"
#include <polynomial.h>
#include <polynomial_context.h>
#include <variable_db.h>
#include <variable_order.h>
#include <polynomial_hash_set.h>
#include <polynomial_heap.h>
#include <polynomial_vector.h>
#include <stdarg.h>
#include <setjmp.h>
#include <signal.h>
#include <unistd.h>
#include <sys/time.h>
/* provided by the sanitizer runtime (sanitizer/allocator_interface.h) */
extern size_t __sanitizer_get_current_allocated_bytes(void);

#define MAXP 256

static lp_variable_db_t* g_db;
static lp_variable_order_t* g_ord;
static lp_polynomial_context_t* g_ctx;
static lp_variable_t g_x, g_y;
static lp_polynomial_t* g_pool[MAXP];
static long g_key[MAXP];
static int g_P;

/* ---- output buffer (a hang must not leave a partial line on stdout) */
static char* g_out = NULL;
static size_t g_len = 0, g_cap = 0;
static void oprintf(const char* fmt, ...) {
  va_list ap;
  for (;;) {
    va_start(ap, fmt);
    int n = vsnprintf(g_out + g_len, g_cap - g_len, fmt, ap);
    va_end(ap);
    if (n >= 0 && (size_t)n < g_cap - g_len) { g_len += n; return; }
    g_cap = g_cap ? 2 * g_cap + n : 4096 + n;
    g_out = realloc(g_out, g_cap);
  }
}
static void flush_case(void) { fwrite(g_out, 1, g_len, stdout); g_len = 0; end_case(); }

static sigjmp_buf g_jmp;
static int g_hangs = 0;
static void on_alarm(int sig) { (void)sig; siglongjmp(g_jmp, 1); }
/* a failing assert of the library lands here instead of in abort(): the case is reported as ABORT and the
 * driver goes on with the next case (this definition takes precedence over the C library's) */
void __assert_fail(const char* expr, const char* file, unsigned int line, const char* func) {
  fprintf(stderr, "c20: %s:%u: %s: Assertion `%s' failed.\n", file, line, func, expr);
  siglongjmp(g_jmp, 2);
}
/* watchdog: 6 s per case (a case takes milliseconds); once 2 cases have hung in this process the
 * library is broken anyway and the budget drops to 1 s so that a run stays short */
static void watchdog(int on) {
  struct itimerval it;
  memset(&it, 0, sizeof it);
  if (on) { if (g_hangs < 2) it.it_value.tv_sec = 6; else it.it_value.tv_sec = 1; }
  setitimer(ITIMER_REAL, &it, NULL);
}

/* ---- context and pool */
static lp_int_ring_t* g_K = NULL;
static void ctx_open_ring(long m);
static void ctx_open(void) { ctx_open_ring(0); }
static void ctx_open_ring(long m) {
  if (m > 0) {
    lp_integer_t M;
    lp_integer_construct_from_int(lp_Z, &M, m);
    g_K = lp_int_ring_create(&M, 1);
    lp_integer_destruct(&M);
  } else g_K = NULL;
  g_db = lp_variable_db_new();
  g_ord = lp_variable_order_new();
  g_x = lp_variable_db_new_variable(g_db, "x");
  g_y = lp_variable_db_new_variable(g_db, "y");
  lp_variable_order_push(g_ord, g_y);
  lp_variable_order_push(g_ord, g_x);
  g_ctx = lp_polynomial_context_new(g_K ? g_K : lp_Z, g_db, g_ord);
}
static void ctx_close(void) {
  lp_polynomial_context_detach(g_ctx);
  lp_variable_order_detach(g_ord);
  lp_variable_db_detach(g_db);
  if (g_K) { lp_int_ring_detach(g_K); g_K = NULL; }
}
/* bytes currently allocated, not counting the output buffer of this driver */
static long live_bytes(void) { return (long)__sanitizer_get_current_allocated_bytes() - (long)g_cap; }

/* a*x^i*y^j + b  (a, b taken into the ring of the context) */
static lp_polynomial_t* mkpoly(long a, unsigned i, unsigned j, long b) {
  lp_int_ring_t* K = g_K ? g_K : lp_Z;
  lp_integer_t c;
  lp_integer_construct_from_int(K, &c, a);
  lp_polynomial_t* p;
  if (lp_integer_is_zero(K, &c)) p = lp_polynomial_new(g_ctx);
  else {
    p = lp_polynomial_alloc();
    lp_polynomial_construct_simple(p, g_ctx, &c, g_x, i);
    if (j > 0) {
      lp_integer_assign_int(K, &c, 1);
      lp_polynomial_t* q = lp_polynomial_alloc();
      lp_polynomial_construct_simple(q, g_ctx, &c, g_y, j);
      lp_polynomial_mul(p, p, q);
      lp_polynomial_delete(q);
    }
  }
  lp_integer_assign_int(K, &c, b);
  if (!lp_integer_is_zero(K, &c)) {
    lp_polynomial_t* q = lp_polynomial_alloc();
    lp_polynomial_construct_simple(q, g_ctx, &c, g_x, 0);
    lp_polynomial_add(p, p, q);
    lp_polynomial_delete(q);
  }
  lp_integer_destruct(&c);
  return p;
}

/* reads P and the pool starting at token 1; returns the index of the first op token */
static int read_pool(int with_key) {
  g_P = atoi(vtok[1]);
  int t = 2;
  for (int k = 0; k < g_P; ++k) {
    g_pool[k] = mkpoly(atol(vtok[t]), (unsigned)atol(vtok[t+1]), (unsigned)atol(vtok[t+2]), atol(vtok[t+3]));
    t += 4;
    if (with_key) g_key[k] = atol(vtok[t++]);
  }
  return t;
}
static void free_pool(void) { for (int k = 0; k < g_P; ++k) lp_polynomial_delete(g_pool[k]); g_P = 0; }

static int find_id(const lp_polynomial_t* p) {
  for (int k = 0; k < g_P; ++k) if (lp_polynomial_cmp(p, g_pool[k]) == 0) return k;
  return -1;
}
/* what is left in the source of a move: z = zero polynomial, s = still pool[k], ? = something else */
static char src_state(const lp_polynomial_t* src, int k) {
  if (lp_polynomial_is_zero(src)) {
    /* "the zero polynomial" must also BEHAVE as zero: equal to a freshly built 0 and hashed like it
       (a move that leaves a stale cached hash behind makes eq(source, 0) false) */
    lp_polynomial_t* z0 = lp_polynomial_new(lp_polynomial_get_context(src));
    int same = lp_polynomial_eq(src, z0) && lp_polynomial_hash(src) == lp_polynomial_hash(z0);
    lp_polynomial_delete(z0);
    return same ? 'z' : 'Z';
  }
  if (lp_polynomial_cmp(src, g_pool[k]) == 0) return 's';
  return '?';
}
/* make a polynomial different from what it was (adds x^7 + 1) */
static void mutate(lp_polynomial_t* p) {
  lp_polynomial_t* q = mkpoly(1, 7, 0, 1);
  lp_polynomial_add(p, p, q);
  lp_polynomial_delete(q);
}

/* "3.7.12" -> ids; "-" = empty */
static int parse_ids(const char* s, int* ids) {
  int n = 0;
  if (s[0] == '-' || s[0] == 0) return 0;
  while (*s) {
    ids[n++] = (int)strtol(s, (char**)&s, 10);
    if (*s == '.') ++s;
  }
  return n;
}
static int cmp_int(const void* a, const void* b) { return *(const int*)a - *(const int*)b; }

static lp_polynomial_vector_t* mkvector(const int* ids, int n) {
  lp_polynomial_vector_t* v = lp_polynomial_vector_new(g_ctx);
  for (int q = 0; q < n; ++q) {
    if (q % 2 == 0) lp_polynomial_vector_push_back(v, g_pool[ids[q]]);
    else {
      lp_polynomial_t* tmp = lp_polynomial_new_copy(g_pool[ids[q]]);
      lp_polynomial_vector_push_back_move(v, tmp);
      lp_polynomial_delete(tmp);
    }
  }
  return v;
}

/* ------------------------------------------------------------------------------------------ hash set */
static void run_hs(void) {
  int t = read_pool(0);
  oprintf("H");
  for (int k = 0; k < g_P; ++k) oprintf(" %zu", lp_polynomial_hash(g_pool[k]));
  lp_polynomial_hash_set_t* set = lp_polynomial_hash_set_new();
  int closed = 0;
  static int ids[MAXTOK];
  for (; t < vntok; ++t) {
    const char* op = vtok[t];
    oprintf(" ;");
    switch (op[0]) {
    case 'i': oprintf(" %d", lp_polynomial_hash_set_insert(set, g_pool[atoi(op + 1)])); break;
    case 'm': {
      int k = atoi(op + 1);
      lp_polynomial_t* tmp = lp_polynomial_new_copy(g_pool[k]);
      int r = lp_polynomial_hash_set_insert_move(set, tmp);
      oprintf(" %d%c", r, src_state(tmp, k));
      mutate(tmp);                       /* the set must not share anything with the source */
      lp_polynomial_delete(tmp);
      break;
    }
    case 'v': {
      int n = parse_ids(op + 1, ids);
      lp_polynomial_vector_t* v = mkvector(ids, n);
      oprintf(" %d", lp_polynomial_hash_set_insert_vector(set, v));
      lp_polynomial_vector_delete(v);
      break;
    }
    case 'r': oprintf(" %d", lp_polynomial_hash_set_remove(set, g_pool[atoi(op + 1)])); break;
    case 'x': {
      int n = parse_ids(op + 1, ids);
      lp_polynomial_hash_set_t* other = lp_polynomial_hash_set_new();
      for (int q = 0; q < n; ++q) lp_polynomial_hash_set_insert(other, g_pool[ids[q]]);
      lp_polynomial_hash_set_intersect(set, other);
      lp_polynomial_hash_set_delete(other);
      oprintf(" -");
      break;
    }
    case 'c': lp_polynomial_hash_set_clear(set); closed = 0; oprintf(" -"); break;
    case 'e': oprintf(" %d", lp_polynomial_hash_set_is_empty(set)); break;
    case 'z': {
      lp_polynomial_hash_set_close(set);
      closed = 1;
      size_t n = lp_polynomial_hash_set_size(set);
      int* got = malloc((n + 1) * sizeof(int));
      for (size_t q = 0; q < n; ++q) {
        const lp_polynomial_t* p = lp_polynomial_hash_set_at(set, q);
        got[q] = p ? find_id(p) : -2;
      }
      qsort(got, n, sizeof(int), cmp_int);
      oprintf(" a:");
      for (size_t q = 0; q < n; ++q) oprintf("%s%d", q ? "." : "", got[q]);
      free(got);
      oprintf(" n%d", lp_polynomial_hash_set_at(set, n) == NULL && lp_polynomial_hash_set_at(set, n + 5) == NULL);
      break;
    }
    default: oprintf(" ?"); break;
    }
    oprintf(" %zu ", lp_polynomial_hash_set_size(set));
    if (closed) oprintf("closed");
    else for (int k = 0; k < g_P; ++k) oprintf("%d", lp_polynomial_hash_set_contains(set, g_pool[k]));
  }
  lp_polynomial_hash_set_delete(set);
  free_pool();
}

/* ------------------------------------------------------------------------------------------ heap */
static int heap_cmp(const lp_polynomial_t* A, const lp_polynomial_t* B) {
  int a = find_id(A), b = find_id(B);
  long ka = a >= 0 ? g_key[a] : -1000000, kb = b >= 0 ? g_key[b] : -1000000;
  return (int)(ka - kb);                /* only the sign may matter */
}
/* invariant monitor on the real array (read through lp_polynomial_heap_at): no element is above its
 * parent.  Checked after EVERY operation, so a breakage shows at the step where it happens even when
 * later pops would happen to hide it. */
static int heap_ordered(const lp_polynomial_heap_t* heap) {
  size_t n = lp_polynomial_heap_size(heap);
  for (size_t i = 1; i < n; ++i) {
    const lp_polynomial_t* c = lp_polynomial_heap_at(heap, i);
    const lp_polynomial_t* p = lp_polynomial_heap_at(heap, (i - 1) / 2);
    if (!c || !p || heap_cmp(p, c) < 0) return 0;
  }
  return lp_polynomial_heap_at(heap, n) == NULL;
}
static void run_hp(void) {
  int t = read_pool(1);
  lp_polynomial_heap_t* heap = lp_polynomial_heap_new(heap_cmp);
  static int ids[MAXTOK];
  oprintf("P");
  for (; t < vntok; ++t) {
    const char* op = vtok[t];
    oprintf(" ;");
    switch (op[0]) {
    case 'p': {
      int k = atoi(op + 1);
      lp_polynomial_t* tmp = lp_polynomial_new_copy(g_pool[k]);
      lp_polynomial_heap_push(heap, tmp);
      mutate(tmp);                       /* the heap holds a copy */
      lp_polynomial_delete(tmp);
      oprintf(" -");
      break;
    }
    case 'q': {
      int k = atoi(op + 1);
      lp_polynomial_t* tmp = lp_polynomial_new_copy(g_pool[k]);
      lp_polynomial_heap_push_move(heap, tmp);
      oprintf(" %c", src_state(tmp, k));
      mutate(tmp);
      lp_polynomial_delete(tmp);
      break;
    }
    case 'v': {
      int n = parse_ids(op + 1, ids);
      lp_polynomial_vector_t* v = mkvector(ids, n);
      lp_polynomial_heap_push_vector(heap, v);
      lp_polynomial_vector_delete(v);
      oprintf(" -");
      break;
    }
    case 'o': {
      lp_polynomial_t* p = lp_polynomial_heap_pop(heap);
      if (p) { oprintf(" %d", find_id(p)); lp_polynomial_delete(p); } else oprintf(" N");
      break;
    }
    case 'k': {
      const lp_polynomial_t* p = lp_polynomial_heap_peek(heap);
      if (p) oprintf(" %d", find_id(p)); else oprintf(" N");
      break;
    }
    case 'r': oprintf(" %d", lp_polynomial_heap_remove(heap, g_pool[atoi(op + 1)])); break;
    case 't': {                          /* remove the top, passing the heap's own pointer */
      const lp_polynomial_t* p = lp_polynomial_heap_peek(heap);
      if (p) { int id = find_id(p); oprintf(" %d:%d", id, lp_polynomial_heap_remove(heap, p)); } else oprintf(" N");
      break;
    }
    case 'c': lp_polynomial_heap_clear(heap); oprintf(" -"); break;
    case 's': oprintf(" %d", lp_polynomial_heap_is_empty(heap)); break;
    default: oprintf(" ?"); break;
    }
    oprintf(" %zu h%d", lp_polynomial_heap_size(heap), heap_ordered(heap));
  }
  oprintf(" ; D");
  for (;;) {
    lp_polynomial_t* p = lp_polynomial_heap_pop(heap);
    if (!p) break;
    oprintf(" %d", find_id(p));
    lp_polynomial_delete(p);
  }
  lp_polynomial_heap_delete(heap);
  free_pool();
}

/* ------------------------------------------------------------------------------------------ vector */
static void run_vc(void) {
  int t = read_pool(0);
  lp_polynomial_vector_t* v = lp_polynomial_vector_new(g_ctx);
  oprintf("V");
  for (; t < vntok; ++t) {
    const char* op = vtok[t];
    oprintf(" ;");
    switch (op[0]) {
    case 'p': {
      int k = atoi(op + 1);
      lp_polynomial_t* tmp = lp_polynomial_new_copy(g_pool[k]);
      lp_polynomial_vector_push_back(v, tmp);
      mutate(tmp);
      lp_polynomial_delete(tmp);
      oprintf(" -");
      break;
    }
    case 'q': {
      int k = atoi(op + 1);
      lp_polynomial_t* tmp = lp_polynomial_new_copy(g_pool[k]);
      lp_polynomial_vector_push_back_move(v, tmp);
      oprintf(" %c", src_state(tmp, k));
      mutate(tmp);
      lp_polynomial_delete(tmp);
      break;
    }
    case 't': lp_polynomial_vector_reset(v); oprintf(" -"); break;
    case 'y': {                          /* copy of the whole vector replaces it */
      lp_polynomial_vector_t* w = lp_polynomial_vector_copy(v);
      lp_polynomial_vector_delete(v);
      v = w;
      oprintf(" -");
      break;
    }
    default: oprintf(" ?"); break;
    }
    size_t n = lp_polynomial_vector_size(v);
    oprintf(" %zu a:", n);
    for (size_t q = 0; q < n; ++q) {
      lp_polynomial_t* p = lp_polynomial_vector_at(v, q);
      oprintf("%s%d", q ? "." : "", find_id(p));
      mutate(p);                         /* at returns a new copy: changing it must not change the vector */
      lp_polynomial_delete(p);
    }
  }
  lp_polynomial_vector_delete(v);
  free_pool();
}

/* ------------------------------------------------------------------------------------------ computed elements
 * hc M P (a i j b)*P NR ops...   one context over Z (M = 0) or Z_M, NR result registers (zero at the start).
 * Elements of the set are RESULTS of polynomial operations whose operands and outputs have cached hashes.
 * Every polynomial value that occurs gets a value id: the index of an INDEPENDENTLY built equal polynomial
 * (rebuilt monomial by monomial, so its hash is computed from its own data) in g_val; id 0 is the zero polynomial.
 *   h<src>            force lp_polynomial_hash(src)          src = p<k> (pool) | r<k> (register)
 *   C<op>,<d>,<a>,<b>,<n>   register d = op(a, b, n)          (operands may be register d itself)
 *   i<src> / r<src>   insert / remove with the object itself  I<src> / R<src>  with the independent equal one
 *   m<src>            insert_move of a copy of src (the copy carries src's cached hash)
 *   k clear, z close + enumeration (only k may follow)
 * after each op: ret size, contains of every value known so far (asked with the independent polynomials),
 * contains of every register (asked with the register itself), the value ids of the registers;
 * at the end "T" + the hash of every value (the model's hash function for this case). */
#define MAXV 1024
#define MAXR 8
static lp_polynomial_t* g_val[MAXV];
static int g_nval;
static lp_polynomial_t* g_reg[MAXR];
static int g_NR;

static void add_mono(const lp_polynomial_context_t* ctx, lp_monomial_t* m, void* data) {
  (void)ctx;
  lp_polynomial_add_monomial((lp_polynomial_t*)data, m);
}
static lp_polynomial_t* rebuild(const lp_polynomial_t* p) {
  lp_polynomial_t* q = lp_polynomial_new(g_ctx);
  lp_polynomial_traverse(p, add_mono, q);
  return q;
}
static int vid_of(const lp_polynomial_t* p) {
  for (int k = 0; k < g_nval; ++k) if (lp_polynomial_cmp(p, g_val[k]) == 0) return k;
  if (g_nval >= MAXV) return -1;
  g_val[g_nval] = rebuild(p);
  return g_nval++;
}
static lp_polynomial_t* hc_src(const char* s) {
  int k = atoi(s + 1);
  if (s[0] == 'p' && k >= 0 && k < g_P) return g_pool[k];
  if (s[0] == 'r' && k >= 0 && k < g_NR) return g_reg[k];
  return NULL;
}
static void hc_compute(char* spec) {
  /* op,d,a,b,n */
  char* f[5] = { "", "0", "p0", "p0", "0" };
  int nf = 0;
  for (char* t = strtok(spec, ","); t && nf < 5; t = strtok(NULL, ",")) f[nf++] = t;
  const char* op = f[0];
  int d = atoi(f[1]) % g_NR;
  lp_polynomial_t* D = g_reg[d];
  lp_polynomial_t* A = hc_src(f[2]);
  lp_polynomial_t* B = hc_src(f[3]);
  unsigned n = (unsigned)atoi(f[4]);
  if (!A) A = g_pool[0];
  if (!B) B = g_pool[0];
  if (!strcmp(op, "add")) lp_polynomial_add(D, A, B);
  else if (!strcmp(op, "sub")) lp_polynomial_sub(D, A, B);
  else if (!strcmp(op, "mul")) lp_polynomial_mul(D, A, B);
  else if (!strcmp(op, "addmul")) lp_polynomial_add_mul(D, A, B);
  else if (!strcmp(op, "submul")) lp_polynomial_sub_mul(D, A, B);
  else if (!strcmp(op, "neg")) lp_polynomial_neg(D, A);
  else if (!strcmp(op, "pow")) lp_polynomial_pow(D, A, n % 4);
  else if (!strcmp(op, "shl") && !lp_polynomial_is_constant(A)) lp_polynomial_shl(D, A, n % 4);
  else if (!strcmp(op, "muli")) { lp_integer_t c; lp_integer_construct_from_int(g_K ? g_K : lp_Z, &c, (long)n - 3); lp_polynomial_mul_integer(D, A, &c); lp_integer_destruct(&c); }
  else if (!strcmp(op, "der")) lp_polynomial_derivative(D, A);
  else if (!strcmp(op, "red") && g_K) lp_polynomial_reduce_degree_Zp(D, A);
  else if (!strcmp(op, "coef")) lp_polynomial_get_coefficient(D, A, n % 4);
  else if (!strcmp(op, "reductum") && !lp_polynomial_is_constant(A)) lp_polynomial_reductum(D, A);
  else if (!strcmp(op, "asg")) lp_polynomial_assign(D, A);
  else if (!strcmp(op, "swap") && f[2][0] == 'r' && f[3][0] == 'r' && A != B) lp_polynomial_swap(A, B);
  else if (!strcmp(op, "pp") && !g_K && !lp_polynomial_is_zero(A)) lp_polynomial_pp(D, A);
  else if (!strcmp(op, "cont") && !g_K && !lp_polynomial_is_zero(A)) lp_polynomial_cont(D, A);
  else if (!strcmp(op, "ppcont") && !g_K && !lp_polynomial_is_zero(A)) {
    lp_polynomial_t* D2 = g_reg[(d + 1) % g_NR];
    if (D2 != D && D2 != A) lp_polynomial_pp_cont(D, D2, A); else lp_polynomial_pp(D, A);
  }
  else { oprintf(" skip"); return; }
  oprintf(" =");
}
static void run_hc(void) {
  /* vtok: hc M P pool... NR ops ; the context was opened over Z_M by main */
  for (int k = 2; k < vntok; ++k) vtok[k - 1] = vtok[k];     /* drop M so that read_pool sees "P pool" */
  --vntok;
  int t = read_pool(0);
  g_NR = atoi(vtok[t++]);
  if (g_NR < 1) g_NR = 1;
  if (g_NR > MAXR) g_NR = MAXR;
  g_nval = 0;
  for (int k = 0; k < g_NR; ++k) g_reg[k] = lp_polynomial_new(g_ctx);
  vid_of(g_reg[0]);                                               /* value 0 = the zero polynomial */
  oprintf("C");
  for (int k = 0; k < g_P; ++k) oprintf(" %d", vid_of(g_pool[k]));
  lp_polynomial_hash_set_t* set = lp_polynomial_hash_set_new();
  int closed = 0;
  for (; t < vntok; ++t) {
    char* op = vtok[t];
    oprintf(" ;");
    lp_polynomial_t* src = (op[0] != 'C' && op[0] != 'k' && op[0] != 'z') ? hc_src(op + 1) : NULL;
    if (op[0] != 'C' && op[0] != 'k' && op[0] != 'z' && !src) { oprintf(" ?"); continue; }
    switch (op[0]) {
    case 'h': (void)lp_polynomial_hash(src); oprintf(" -"); break;
    case 'C': hc_compute(op + 1); break;
    case 'i': oprintf(" %d", lp_polynomial_hash_set_insert(set, src)); break;
    case 'I': { lp_polynomial_t* q = rebuild(src); oprintf(" %d", lp_polynomial_hash_set_insert(set, q)); lp_polynomial_delete(q); break; }
    case 'r': oprintf(" %d", lp_polynomial_hash_set_remove(set, src)); break;
    case 'R': { lp_polynomial_t* q = rebuild(src); oprintf(" %d", lp_polynomial_hash_set_remove(set, q)); lp_polynomial_delete(q); break; }
    case 'm': {
      lp_polynomial_t* tmp = lp_polynomial_new_copy(src);
      int r = lp_polynomial_hash_set_insert_move(set, tmp);
      /* inserted: the source must be zero now; not inserted: it must be unchanged */
      oprintf(" %d%c", r, r ? (lp_polynomial_is_zero(tmp) ? 'z' : '?') : (lp_polynomial_cmp(tmp, src) == 0 ? 's' : '?'));
      lp_polynomial_delete(tmp);
      break;
    }
    case 'k': lp_polynomial_hash_set_clear(set); closed = 0; oprintf(" -"); break;
    case 'z': {
      lp_polynomial_hash_set_close(set);
      closed = 1;
      size_t n = lp_polynomial_hash_set_size(set);
      int* got = malloc((n + 1) * sizeof(int));
      for (size_t q = 0; q < n; ++q) {
        const lp_polynomial_t* p = lp_polynomial_hash_set_at(set, q);
        got[q] = p ? vid_of(p) : -2;
      }
      qsort(got, n, sizeof(int), cmp_int);
      oprintf(" a:");
      for (size_t q = 0; q < n; ++q) oprintf("%s%d", q ? "." : "", got[q]);
      free(got);
      break;
    }
    default: oprintf(" ?"); break;
    }
    /* value ids of the registers first: a new value must be known before it is asked for */
    int rv[MAXR];
    for (int k = 0; k < g_NR; ++k) rv[k] = vid_of(g_reg[k]);
    oprintf(" %zu ", lp_polynomial_hash_set_size(set));
    if (closed) oprintf("closed closed");
    else {
      for (int k = 0; k < g_nval; ++k) oprintf("%d", lp_polynomial_hash_set_contains(set, g_val[k]));
      oprintf(" ");
      for (int k = 0; k < g_NR; ++k) oprintf("%d", lp_polynomial_hash_set_contains(set, g_reg[k]));
    }
    oprintf(" R:");
    for (int k = 0; k < g_NR; ++k) oprintf("%s%d", k ? "." : "", rv[k]);
  }
  oprintf(" ; T");
  for (int k = 0; k < g_nval; ++k) oprintf(" %zu", lp_polynomial_hash(g_val[k]));
  lp_polynomial_hash_set_delete(set);
  for (int k = 0; k < g_NR; ++k) lp_polynomial_delete(g_reg[k]);
  for (int k = 0; k < g_nval; ++k) lp_polynomial_delete(g_val[k]);
  g_nval = 0;
  free_pool();
}

int main(void) {
  struct sigaction sa;
  memset(&sa, 0, sizeof sa);
  sa.sa_handler = on_alarm;
  sa.sa_flags = SA_NODEFER;
  sigaction(SIGALRM, &sa, NULL);
  while (next_case()) {
    if (vntok == 0) { end_case(); continue; }
    g_len = 0;
    long before = live_bytes();
    ctx_open_ring(is_op("hc") && vntok > 1 ? atol(vtok[1]) : 0);
    int why = sigsetjmp(g_jmp, 1);
    if (why) {
      /* a library call did not return, or an assert of the library failed: abandon the case (its
         objects are left behind) */
      watchdog(0);
      if (why == 1) ++g_hangs;
      oprintf(why == 1 ? " HANG" : " ABORT");
      flush_case();
      continue;
    }
    watchdog(1);
    if (is_op("hashes")) {
      int n = (vntok - 1) / 4;
      for (int k = 0; k < n; ++k) {
        lp_polynomial_t* p = mkpoly(atol(vtok[1+4*k]), (unsigned)atol(vtok[2+4*k]), (unsigned)atol(vtok[3+4*k]), atol(vtok[4+4*k]));
        oprintf("%s%zu", k ? " " : "", lp_polynomial_hash(p));
        lp_polynomial_delete(p);
      }
    }
    else if (is_op("hs")) run_hs();
    else if (is_op("hp")) run_hp();
    else if (is_op("vc")) run_vc();
    else if (is_op("hc")) run_hc();
    else oprintf("UNKNOWN-OP");
    watchdog(0);
    ctx_close();
    if (!is_op("hashes")) oprintf(" ; leak=%ld", live_bytes() - before);
    flush_case();
  }
  free(g_out);
  free(vline);
  return 0;
}
