// C12, C++ side: runs poly::infeasible_regions (src/polyxx/polynomial.cpp) itself.
// Built and run by gen/C12.py (the framework's own C driver is C only).  For every `fs` case line on stdin prints
//   N <sc> <k> <interval>* ...   for the six sign conditions (same interval syntax as harness/c11.c),
// "-" for any other line.
#include <polyxx.h>
#include <cstdio>
#include <cstring>
#include <string>
#include <vector>
#include <iostream>

extern "C" {
void glue_init(lp_variable_db_t* db, lp_variable_order_t* order, lp_polynomial_context_t* ctx);
lp_polynomial_t* glue_case(int ntok, char** tok, lp_assignment_t* M, lp_variable_t* y);
void glue_print_interval(const lp_interval_t* I);
void glue_done(void);
}

int main() {
  {
    poly::Context ctx;
    glue_init(ctx.get_variable_db(), ctx.get_variable_order(), ctx.get_polynomial_context());
    std::string line;
    while (std::getline(std::cin, line)) {
      std::vector<char*> tok;
      std::vector<char> buf(line.begin(), line.end()); buf.push_back(0);
      char* save = nullptr;
      for (char* t = strtok_r(buf.data(), " ", &save); t; t = strtok_r(nullptr, " ", &save)) {
        if (strcmp(t, "|") == 0) break;
        tok.push_back(t);
      }
      if (tok.empty() || strcmp(tok[0], "fs") != 0) { printf("-\n"); fflush(stdout); continue; }
      poly::Assignment a(ctx);
      lp_variable_t y;
      lp_polynomial_t* raw = glue_case((int) tok.size(), tok.data(), a.get_internal(), &y);
      if (!raw) { printf("-\n"); fflush(stdout); continue; }
      {
        poly::Polynomial p(raw);   // takes ownership
        for (int sc = 0; sc < 6; ++sc) {
          std::vector<poly::Interval> regions = poly::infeasible_regions(p, a, static_cast<poly::SignCondition>(sc));
          printf("%sN %d %zu", sc ? " " : "", sc, regions.size());
          for (const auto& r : regions) glue_print_interval(r.get_internal());
        }
      }
      printf("\n"); fflush(stdout);
    }
    glue_done();
  }
  return 0;
}
