/* C glue of the C++ driver c12_cxx.cpp: case parsing and value printing with the shared C headers polyio.h /
 * valio.h (which are C, not C++), on the variable database / order / context owned by a poly::Context. */
#include "polyio.h"
#include "valio.h"
#include <assignment.h>
#include <interval.h>

void glue_init(lp_variable_db_t* db, lp_variable_order_t* order, lp_polynomial_context_t* ctx) {
  pio_db = db; pio_order = order; pio_ctx = ctx;
  char name[16];
  for (int i = 0; i < PIO_NV; ++i) { snprintf(name, sizeof name, "x%d", i); pio_x[i] = lp_variable_db_new_variable(pio_db, name); }
  for (int i = 0; i < PIO_NV; ++i) lp_variable_order_push(pio_order, pio_x[i]);
}

/* tok: OP ORD POLY NA (VAR TOK)*; sets the order, fills M, returns the polynomial (caller owns it) or NULL */
lp_polynomial_t* glue_case(int ntok, char** tok, lp_assignment_t* M, lp_variable_t* y) {
  if (ntok < 4) return NULL;
  int perm[PIO_NV]; int n = 0; const char* c = tok[1];
  while (*c) { perm[n++] = (int) strtol(c, (char**)&c, 10); if (*c == ',') ++c; }
  pio_set_order(perm, n);
  *y = pio_x[perm[n-1]];
  lp_polynomial_t* A = pio_new(tok[2]);
  int na = atoi(tok[3]);
  for (int i = 0; i < PIO_NV; ++i) lp_assignment_set_value(M, pio_x[i], 0);
  for (int i = 0; i < na; ++i) {
    int v = atoi(tok[4 + 2*i]);
    lp_value_t val;
    if (!vio_parse(&val, tok[5 + 2*i])) { lp_polynomial_delete(A); return NULL; }
    lp_assignment_set_value(M, pio_x[v], &val);
    lp_value_destruct(&val);
  }
  if (lp_polynomial_is_constant(A) || lp_polynomial_top_variable(A) != *y) { lp_polynomial_delete(A); return NULL; }
  return A;
}

void glue_print_interval(const lp_interval_t* I) {
  if (I->is_point) { printf(" P "); vio_print(&I->a); }
  else { printf(" I "); vio_print(&I->a); printf(" %d ", (int) I->a_open); vio_print(&I->b); printf(" %d", (int) I->b_open); }
}
void glue_done(void) { free(pio_terms); pio_terms = NULL; }
