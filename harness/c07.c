/* C07 driver: real algebraic numbers (number/algebraic_number.c through the public lp_algebraic_number_* API).
 *
 * One case = a pool of numbers built from valio.h tokens, then a sequence of steps on the pool:
 *     seq T0 T1 ... Tn-1 | step step ...
 * Steps (fields separated by ':'; k = destination slot (new, pre-used or aliased with an operand), i, j = operand slots):
 *     add:k:i:j sub:k:i:j mul:k:i:j div:k:i:j neg:k:i inv:k:i pow:k:i:n root:k:i:n copy:k:i point:k:i:K refine:i
 *     sgn:i cmp:i:j cmpz:i:K cmpd:i:K cmpq:i:K floor:i ceil:i isint:i israt:i torat:i todbl:i mid:i
 *   K = a literal (integer / a/n dyadic / n/d rational) or a letter: for cmpz f|c (the number's own floor/ceiling as computed
 *   by the library), for cmpd/cmpq l|u|m (lower end / upper end / midpoint of the CURRENT isolating interval).
 * Output (one line): the structs of the initial pool, '|', one token per step, '|', the structs of all slots at the end.
 * A struct is printed by vio_print_alg from the fields the library holds (polynomial, interval ends, sign caches).
 * Step tokens (fields separated by ';'): arithmetic: result struct, then the operand structs AFTER the call (operands are
 * refined through const pointers; neg / inv print the operand before first); observations: operand struct
 * before, scalar compared with, answer, operand struct after (comparisons refine the operand through the const pointer).
 * 'undef' = outside the documented domain (inverse of 0, root of a negative number), 'skip' = degrees too large for the
 * reference arithmetic of the model side; both decided here from the library's own sgn / degrees. */
#include "valio.h"
#include <math.h>
#include <signal.h>
#include "upolynomial/upolynomial.h"
#include <unistd.h>

/* a case that does not terminate (e.g. a bisection loop keeping the half without the root) must not stall the
 * check: the driver dies, the missing output line is reported as a crash of that case and the run goes on */
#define CASE_SECONDS 10
static void on_alarm(int sig) {
  (void) sig;
  static const char msg[] = "C07 harness: case exceeded its time limit (non-terminating loop in the library?)\n";
  if (write(2, msg, sizeof(msg) - 1) < 0) {}
  _exit(99);
}

#define NP 64
#define DLIM 16
static lp_algebraic_number_t pool[NP];
static int used[NP];

static size_t deg_of(const lp_algebraic_number_t* a) { return a->f ? lp_upolynomial_degree(a->f) : 1; }
/* number of monomials of the defining polynomial (2 for a point: q x - p) */
static size_t terms_of(const lp_algebraic_number_t* a) { return a->f ? a->f->size : 2; }
/* sparse polynomial with small coefficients (at most 3 monomials, |c| < 2^16); points count as such */
static int small_sparse(const lp_algebraic_number_t* a) {
  if (!a->f) return mpz_sizeinbase(&a->I.a.a, 2) <= 16 && a->I.a.n <= 16;
  if (a->f->size > 3) return 0;
  for (size_t i = 0; i < a->f->size; ++i) if (mpz_sizeinbase(&a->f->monomials[i].coefficient, 2) > 16) return 0;
  return 1;
}
/* is the binary step cheap enough for the reference arithmetic of the model side?  general operands: product of the
 * degrees <= DLIM; beyond that only small sparse polynomials: a degree <= 3 with a degree <= 11 operand, or two
 * binomials x^n - c (sparse resultants) with degree product <= 70 */
static int binary_ok(const lp_algebraic_number_t* a, const lp_algebraic_number_t* b) {
  size_t da = deg_of(a), db = deg_of(b);
  size_t lo = da < db ? da : db, hi = da < db ? db : da;
  if (da * db <= DLIM) return 1;
  if (!small_sparse(a) || !small_sparse(b)) return 0;
  if (lo <= 3 && hi <= 11) return 1;
  if (terms_of(a) == 2 && terms_of(b) == 2 && da * db <= 70) return 1;
  return 0;
}
/* large exponents only on small sparse polynomials */
static int pow_ok(const lp_algebraic_number_t* a, unsigned n) {
  if (deg_of(a) > 8) return 0;
  if (n <= 8) return 1;
  return n <= 13 && small_sparse(a);
}

static int from_value(lp_algebraic_number_t* a, const lp_value_t* v) {
  switch (v->type) {
  case LP_VALUE_INTEGER: lp_algebraic_number_construct_from_integer(a, &v->value.z); return 1;
  case LP_VALUE_DYADIC_RATIONAL: lp_algebraic_number_construct_from_dyadic_rational(a, &v->value.dy_q); return 1;
  case LP_VALUE_RATIONAL: lp_algebraic_number_construct_from_rational(a, &v->value.q); return 1;
  case LP_VALUE_ALGEBRAIC: lp_algebraic_number_construct_copy(a, &v->value.a); return 1;
  default: return 0;
  }
}

/* make slot k an output operand: fresh slots are constructed as zero; used ones keep their contents */
static lp_algebraic_number_t* out_slot(int k) {
  if (!used[k]) { lp_algebraic_number_construct_zero(&pool[k]); used[k] = 1; }
  return &pool[k];
}

static void print_q(const lp_rational_t* q) { print_z(mpq_numref(q)); putchar('/'); print_z(mpq_denref(q)); }

static void parse_q(lp_rational_t* q, const char* s) {
  const char* sl = strchr(s, '/'); char* num = strndup(s, (size_t)(sl - s));
  lp_integer_t n, d; lp_integer_construct_from_string(lp_Z, &n, num, 10); lp_integer_construct_from_string(lp_Z, &d, sl + 1, 10); free(num);
  lp_rational_construct_from_div(q, &n, &d); lp_integer_destruct(&n); lp_integer_destruct(&d);
}

/* the dyadic named by K for slot a: l / u / m or a literal a/n */
static void dyadic_of_K(lp_dyadic_rational_t* d, const lp_algebraic_number_t* a, const char* K) {
  if (strcmp(K, "l") == 0) { lp_dyadic_rational_construct_copy(d, &a->I.a); }
  else if (strcmp(K, "u") == 0) { lp_dyadic_rational_construct_copy(d, a->I.is_point ? &a->I.a : &a->I.b); }
  else if (strcmp(K, "m") == 0) { lp_dyadic_rational_construct(d); lp_algebraic_number_get_dyadic_midpoint(a, d); }
  else vio_dyadic(d, K, NULL);
}

static void print_double_exact(double x) {
  if (isnan(x) || isinf(x)) { printf("nan"); return; }
  if (x == 0.0) { printf("0:0"); return; }
  int e; double m = frexp(x, &e);            /* x = m * 2^e, 0.5 <= |m| < 1 */
  long long M = (long long) ldexp(m, 53);    /* exact: 53-bit mantissa */
  printf("%lld:%d", M, e - 53);
}

static char* fld[8]; static int nfld;
static void split_step(char* s) {
  nfld = 0; char* save = NULL;
  for (char* t = strtok_r(s, ":", &save); t && nfld < 8; t = strtok_r(NULL, ":", &save)) fld[nfld++] = t;
}

static void do_step(char* step) {
  split_step(step);
  const char* op = fld[0];
  int a1 = nfld > 1 ? atoi(fld[1]) : 0, a2 = nfld > 2 ? atoi(fld[2]) : 0, a3 = nfld > 3 ? atoi(fld[3]) : 0;
  if (!strcmp(op, "add") || !strcmp(op, "sub") || !strcmp(op, "mul") || !strcmp(op, "div")) {
    int k = a1, i = a2, j = a3;
    if (!used[i] || !used[j]) { printf("badslot"); return; }
    if (!binary_ok(&pool[i], &pool[j])) { printf("skip"); return; }
    if (op[0] == 'd' && lp_algebraic_number_sgn(&pool[j]) == 0) { printf("undef"); return; }
    lp_algebraic_number_t* r = out_slot(k);
    switch (op[0]) {
    case 'a': lp_algebraic_number_add(r, &pool[i], &pool[j]); break;
    case 's': lp_algebraic_number_sub(r, &pool[i], &pool[j]); break;
    case 'm': lp_algebraic_number_mul(r, &pool[i], &pool[j]); break;
    default:  lp_algebraic_number_div(r, &pool[i], &pool[j]); break;
    }
    vio_print_alg(r); putchar(';'); vio_print_alg(&pool[i]); putchar(';'); vio_print_alg(&pool[j]);
  } else if (!strcmp(op, "neg")) {
    int k = a1, i = a2; if (!used[i]) { printf("badslot"); return; }
    vio_print_alg(&pool[i]); putchar(';');
    lp_algebraic_number_t* r = out_slot(k);
    lp_algebraic_number_neg(r, &pool[i]);
    vio_print_alg(r);
  } else if (!strcmp(op, "inv")) {
    int k = a1, i = a2; if (!used[i]) { printf("badslot"); return; }
    if (lp_algebraic_number_sgn(&pool[i]) == 0) { printf("undef"); return; }
    vio_print_alg(&pool[i]); putchar(';');
    lp_algebraic_number_t* r = out_slot(k);
    lp_algebraic_number_inv(r, &pool[i]);
    vio_print_alg(r); putchar(';'); vio_print_alg(&pool[i]);
  } else if (!strcmp(op, "pow")) {
    int k = a1, i = a2; unsigned n = (unsigned) a3; if (!used[i]) { printf("badslot"); return; }
    if (!pow_ok(&pool[i], n)) { printf("skip"); return; }
    lp_algebraic_number_t* r = out_slot(k);
    lp_algebraic_number_pow(r, &pool[i], n);
    vio_print_alg(r); putchar(';'); vio_print_alg(&pool[i]);
  } else if (!strcmp(op, "root")) {
    int k = a1, i = a2; unsigned n = (unsigned) a3; if (!used[i]) { printf("badslot"); return; }
    if (n == 0 || lp_algebraic_number_sgn(&pool[i]) < 0) { printf("undef"); return; }
    if (deg_of(&pool[i]) * n > DLIM && !(terms_of(&pool[i]) == 2 && small_sparse(&pool[i]) && deg_of(&pool[i]) * n <= 33)) { printf("skip"); return; }
    lp_algebraic_number_t* r = out_slot(k);
    lp_algebraic_number_positive_root(r, &pool[i], n);
    vio_print_alg(r); putchar(';'); vio_print_alg(&pool[i]);
  } else if (!strcmp(op, "copy")) {
    int k = a1, i = a2; if (!used[i] || k == i) { printf("badslot"); return; }
    if (used[k]) lp_algebraic_number_destruct(&pool[k]);
    lp_algebraic_number_construct_copy(&pool[k], &pool[i]); used[k] = 1;
    vio_print_alg(&pool[k]);
  } else if (!strcmp(op, "point")) {
    /* a new point number at the lower end / upper end / midpoint of slot i's CURRENT interval (or a literal dyadic) */
    int k = a1, i = a2; if (!used[i] || k == i) { printf("badslot"); return; }
    lp_dyadic_rational_t d; dyadic_of_K(&d, &pool[i], fld[3]);
    vio_print_alg(&pool[i]); putchar(';');
    if (used[k]) lp_algebraic_number_destruct(&pool[k]);
    lp_algebraic_number_construct_from_dyadic_rational(&pool[k], &d); used[k] = 1;
    vio_print_alg(&pool[k]);
    lp_dyadic_rational_destruct(&d);
  } else if (!strcmp(op, "refine")) {
    int i = a1; if (!used[i]) { printf("badslot"); return; }
    vio_print_alg(&pool[i]); putchar(';');
    lp_algebraic_number_refine(&pool[i]);
    vio_print_alg(&pool[i]);
  } else if (!strcmp(op, "sgn")) {
    int i = a1; if (!used[i]) { printf("badslot"); return; }
    vio_print_alg(&pool[i]); putchar(';');
    int s = lp_algebraic_number_sgn(&pool[i]);
    printf("%d;", sgn_of(s)); vio_print_alg(&pool[i]);
  } else if (!strcmp(op, "cmp")) {
    int i = a1, j = a2; if (!used[i] || !used[j]) { printf("badslot"); return; }
    vio_print_alg(&pool[i]); putchar(';'); vio_print_alg(&pool[j]); putchar(';');
    int s = lp_algebraic_number_cmp(&pool[i], &pool[j]);
    printf("%d;", sgn_of(s)); vio_print_alg(&pool[i]); putchar(';'); vio_print_alg(&pool[j]);
  } else if (!strcmp(op, "cmpz")) {
    int i = a1; if (!used[i]) { printf("badslot"); return; }
    lp_integer_t z; lp_integer_construct(&z);
    if (!strcmp(fld[2], "f")) lp_algebraic_number_floor(&pool[i], &z);
    else if (!strcmp(fld[2], "c")) lp_algebraic_number_ceiling(&pool[i], &z);
    else mpz_set_str(&z, fld[2], 10);
    vio_print_alg(&pool[i]); putchar(';'); print_z(&z); putchar(';');
    int s = lp_algebraic_number_cmp_integer(&pool[i], &z);
    printf("%d;", sgn_of(s)); vio_print_alg(&pool[i]);
    lp_integer_destruct(&z);
  } else if (!strcmp(op, "cmpd")) {
    int i = a1; if (!used[i]) { printf("badslot"); return; }
    lp_dyadic_rational_t d; dyadic_of_K(&d, &pool[i], fld[2]);
    vio_print_alg(&pool[i]); putchar(';'); vio_print_dy(&d); putchar(';');
    int s = lp_algebraic_number_cmp_dyadic_rational(&pool[i], &d);
    printf("%d;", sgn_of(s)); vio_print_alg(&pool[i]);
    lp_dyadic_rational_destruct(&d);
  } else if (!strcmp(op, "cmpq")) {
    int i = a1; if (!used[i]) { printf("badslot"); return; }
    lp_rational_t q;
    if (strchr(fld[2], '/')) parse_q(&q, fld[2]);
    else { lp_dyadic_rational_t d; dyadic_of_K(&d, &pool[i], fld[2]); lp_rational_construct_from_dyadic(&q, &d); lp_dyadic_rational_destruct(&d); }
    vio_print_alg(&pool[i]); putchar(';'); print_q(&q); putchar(';');
    int s = lp_algebraic_number_cmp_rational(&pool[i], &q);
    printf("%d;", sgn_of(s)); vio_print_alg(&pool[i]);
    lp_rational_destruct(&q);
  } else if (!strcmp(op, "floor") || !strcmp(op, "ceil")) {
    int i = a1; if (!used[i]) { printf("badslot"); return; }
    lp_integer_t z; lp_integer_construct(&z);
    vio_print_alg(&pool[i]); putchar(';');
    if (op[0] == 'f') lp_algebraic_number_floor(&pool[i], &z); else lp_algebraic_number_ceiling(&pool[i], &z);
    print_z(&z); lp_integer_destruct(&z);
  } else if (!strcmp(op, "isint") || !strcmp(op, "israt")) {
    int i = a1; if (!used[i]) { printf("badslot"); return; }
    vio_print_alg(&pool[i]); putchar(';');
    printf("%d", op[2] == 'i' ? (lp_algebraic_number_is_integer(&pool[i]) ? 1 : 0) : (lp_algebraic_number_is_rational(&pool[i]) ? 1 : 0));
  } else if (!strcmp(op, "torat")) {
    int i = a1; if (!used[i]) { printf("badslot"); return; }
    lp_rational_t q; lp_rational_construct(&q);
    vio_print_alg(&pool[i]); putchar(';');
    lp_algebraic_number_to_rational(&pool[i], &q);
    print_q(&q); lp_rational_destruct(&q);
  } else if (!strcmp(op, "todbl")) {
    int i = a1; if (!used[i]) { printf("badslot"); return; }
    vio_print_alg(&pool[i]); putchar(';');
    print_double_exact(lp_algebraic_number_to_double(&pool[i]));
  } else if (!strcmp(op, "mid")) {
    int i = a1; if (!used[i]) { printf("badslot"); return; }
    lp_dyadic_rational_t d; lp_dyadic_rational_construct(&d);
    vio_print_alg(&pool[i]); putchar(';');
    lp_algebraic_number_get_dyadic_midpoint(&pool[i], &d);
    vio_print_dy(&d); putchar(';');
    lp_rational_t q; lp_rational_construct(&q);
    lp_algebraic_number_get_rational_midpoint(&pool[i], &q);
    print_q(&q); lp_rational_destruct(&q);
    lp_dyadic_rational_destruct(&d);
  } else printf("UNKNOWN-STEP");
}

int main(void) {
  signal(SIGALRM, on_alarm);
  while (next_case()) {
    alarm(CASE_SECONDS);
    if (vntok == 0 || !is_op("seq")) { printf("UNKNOWN-OP"); end_case(); continue; }
    memset(used, 0, sizeof(used));
    int t = 1, n = 0, ok = 1;
    for (; t < vntok && strcmp(vtok[t], "|") != 0; ++t) {
      lp_value_t v;
      if (n >= NP / 2 || !vio_parse(&v, vtok[t])) { ok = 0; break; }
      ok = from_value(&pool[n], &v); lp_value_destruct(&v);
      if (!ok) break;
      used[n++] = 1;
    }
    if (!ok) { printf("badtoken"); }
    else {
      for (int i = 0; i < n; ++i) { if (i) putchar(' '); vio_print_alg(&pool[i]); }
      printf(" |");
      for (++t; t < vntok; ++t) { putchar(' '); do_step(vtok[t]); }
      printf(" |");
      for (int i = 0; i < NP; ++i) if (used[i]) { printf(" %d=", i); vio_print_alg(&pool[i]); }
    }
    for (int i = 0; i < NP; ++i) if (used[i]) { lp_algebraic_number_destruct(&pool[i]); used[i] = 0; }
    alarm(0);
    end_case();
  }
  free(vline);
  return 0;
}
