/* C13 driver: real feasibility sets (lp_feasibility_set_t) and the interval comparison underneath.
 *
 * End points come from a fixed, strictly increasing POOL of lp_value_t of mixed kinds (integers, dyadic
 * rationals, rationals, algebraic numbers, -inf, +inf).  A case names an end point by its pool RANK (and
 * optionally a VARIANT "rank.variant": another lp_value_t representation of the same number), results are
 * mapped back to ranks with lp_value_cmp against the pool.  The model runs on the ranks.
 *
 *   B <probes> <set1> <set2>    intersect (+status), union both ways and aliased, flags, membership sweeps,
 *                               pairwise lp_interval_cmp, to_interval, pick_value
 *   C <itv1> <itv2>             lp_interval_cmp / _cmp_with_intersect (fresh and pre-used P) / bounds / cmp_value
 *   Q <set>                     integer queries on sets with rational end points given literally
 *   A <set>                     integer queries and picks on sets with ALGEBRAIC / mixed end points (valio.h tokens)
 *   S <set1> <set2>             intersect (+status) / union both ways of two sets given by valio.h tokens (A syntax), the
 *                               results printed as tokens, their flags, integer queries and picks, membership of the
 *                               operands' end points
 *
 * set syntax:  {}  |  itv(;itv)*      itv:  {e}  |  [e,e]  (e,e)  [e,e)  (e,e]
 * B/C end point e: rank or rank.variant;   Q end point e: -inf | +inf | i<z> | q<n>/<d> | d<a>/<k> (= a/2^k)
 * probes: '*' (all ranks) or a comma separated list of ranks.
 */
#include "common.h"
#include "valio.h"
#include <unistd.h>
#include <integer.h>
#include <rational.h>
#include <dyadic_rational.h>
#include <dyadic_interval.h>
#include <algebraic_number.h>
#include <upolynomial.h>
#include <value.h>
#include <interval.h>
#include <feasibility_set.h>
#include "polynomial/feasibility_set.h"
/* defined (non-static) in feasibility_set.c, declared in no header */
lp_feasibility_set_t* lp_feasibility_set_new_from_intervals(lp_interval_t* intervals, size_t intervals_size);

/* ------------------------------------------------------------------ the pool */
#define MAXVAR 4
static const char* POOL_SPEC[] = {
  /* 0 */ "-inf",
  /* 1 */ "i:-3|q:-3/1|d:-3/0",
  /* 2 */ "d:-5/1|q:-5/2",
  /* 3 */ "q:-7/3",
  /* 4 */ "a:-3,0,1:0",                       /* -sqrt(3) */
  /* 5 */ "q:-3/2|d:-3/1",
  /* 6 */ "a:-2,0,1:0|A:-2,0,1:-2/0:-1/0",     /* -sqrt(2): root isolation | explicit construction on (-2,-1) */
  /* 7 */ "i:-1|d:-1/0",
  /* 8 */ "q:-1/3",
  /* 9 */ "i:0|d:0/0|q:0/1",
  /* 10 */ "d:1/2",                            /* 1/4 */
  /* 11 */ "q:1/3",
  /* 12 */ "d:1/1|q:1/2|r:1/2",                /* 1/2, also as an algebraic number constructed from a rational */
  /* 13 */ "i:1|q:1/1|d:1/0",
  /* 14 */ "d:5/2",                            /* 5/4 */
  /* 15 */ "a:-2,0,1:1|A:-2,0,1:1/0:2/0|a:-4,0,0,0,1:1",  /* sqrt(2), also as the positive real root of x^4-4 */
  /* 16 */ "q:1414213563/1000000000",          /* just above sqrt(2) */
  /* 17 */ "d:3/1|q:3/2",
  /* 18 */ "a:-1,-1,1:1",                      /* (1+sqrt 5)/2 */
  /* 19 */ "a:-3,0,1:1",                       /* sqrt(3) */
  /* 20 */ "d:7/2",                            /* 7/4 */
  /* 21 */ "i:2|d:2/0|q:2/1|z:2",              /* 2, also as an algebraic number constructed from an integer */
  /* 22 */ "q:5/2|d:5/1",
  /* 23 */ "a:-20,0,0,1:0",                    /* cube root of 20 */
  /* 24 */ "i:3",
  /* 25 */ "i:100000000000000000000",
  /* 26 */ "+inf",
};
#define NPOOL ((int)(sizeof(POOL_SPEC)/sizeof(POOL_SPEC[0])))
static lp_value_t pool[NPOOL][MAXVAR];
static int nvar[NPOOL];

static void die(const char* msg, const char* what) {
  fprintf(stderr, "c13 harness: %s %s\n", msg, what ? what : "");
  exit(3);
}

/* parse "n/k" */
static void split2(const char* s, char sep, char* a, char* b, size_t cap) {
  const char* p = strchr(s, sep);
  if (!p) die("bad pair", s);
  size_t la = (size_t)(p - s);
  if (la >= cap || strlen(p + 1) >= cap) die("token too long", s);
  memcpy(a, s, la); a[la] = 0; strcpy(b, p + 1);
}

static lp_upolynomial_t* poly_of(const char* coeffs) {
  lp_integer_t c[16]; size_t n = 0;
  char buf[256]; strncpy(buf, coeffs, sizeof(buf) - 1); buf[sizeof(buf) - 1] = 0;
  char* save = NULL;
  for (char* t = strtok_r(buf, ",", &save); t && n < 16; t = strtok_r(NULL, ",", &save)) mpz_init_set_str(&c[n++], t, 10);
  lp_upolynomial_t* f = lp_upolynomial_construct(lp_Z, n - 1, c);
  for (size_t i = 0; i < n; ++i) mpz_clear(&c[i]);
  return f;
}

/* construct a value from a literal spec (pool syntax "k:..." or Q syntax "k...") */
static void value_of_spec(lp_value_t* v, const char* spec) {
  char a[200], b[200];
  if (strcmp(spec, "-inf") == 0) { lp_value_construct(v, LP_VALUE_MINUS_INFINITY, 0); return; }
  if (strcmp(spec, "+inf") == 0) { lp_value_construct(v, LP_VALUE_PLUS_INFINITY, 0); return; }
  char k = spec[0];
  const char* rest = spec + 1; if (*rest == ':') rest++;
  if (k == 'i') {
    lp_integer_t z; mpz_init_set_str(&z, rest, 10);
    lp_value_construct(v, LP_VALUE_INTEGER, &z); mpz_clear(&z);
  } else if (k == 'q') {
    split2(rest, '/', a, b, sizeof(a));
    lp_integer_t n, d; mpz_init_set_str(&n, a, 10); mpz_init_set_str(&d, b, 10);
    lp_rational_t q; lp_rational_construct_from_div(&q, &n, &d);
    lp_value_construct(v, LP_VALUE_RATIONAL, &q);
    lp_rational_destruct(&q); mpz_clear(&n); mpz_clear(&d);
  } else if (k == 'd') {
    split2(rest, '/', a, b, sizeof(a));
    lp_dyadic_rational_t d; lp_dyadic_rational_construct(&d);
    mpz_set_str(&d.a, a, 10); d.n = strtoul(b, NULL, 10);
    lp_value_construct(v, LP_VALUE_DYADIC_RATIONAL, &d);
    lp_dyadic_rational_destruct(&d);
  } else if (k == 'r') {
    split2(rest, '/', a, b, sizeof(a));
    lp_integer_t n, d; mpz_init_set_str(&n, a, 10); mpz_init_set_str(&d, b, 10);
    lp_rational_t q; lp_rational_construct_from_div(&q, &n, &d);
    lp_algebraic_number_t x; lp_algebraic_number_construct_from_rational(&x, &q);
    lp_value_construct(v, LP_VALUE_ALGEBRAIC, &x);
    lp_algebraic_number_destruct(&x); lp_rational_destruct(&q); mpz_clear(&n); mpz_clear(&d);
  } else if (k == 'z') {
    lp_integer_t z; mpz_init_set_str(&z, rest, 10);
    lp_algebraic_number_t x; lp_algebraic_number_construct_from_integer(&x, &z);
    lp_value_construct(v, LP_VALUE_ALGEBRAIC, &x);
    lp_algebraic_number_destruct(&x); mpz_clear(&z);
  } else if (k == 'a') {
    /* a:<coefficients low..high>:<index of the real root, ascending> through root isolation */
    split2(rest, ':', a, b, sizeof(a));
    lp_upolynomial_t* f = poly_of(a);
    size_t deg = lp_upolynomial_degree(f), n = 0, idx = strtoul(b, NULL, 10);
    lp_algebraic_number_t* roots = malloc(sizeof(lp_algebraic_number_t) * (deg + 1));
    lp_upolynomial_roots_isolate(f, roots, &n);
    if (idx >= n) die("root index out of range", spec);
    lp_value_construct(v, LP_VALUE_ALGEBRAIC, &roots[idx]);
    for (size_t i = 0; i < n; ++i) lp_algebraic_number_destruct(&roots[i]);
    free(roots); lp_upolynomial_delete(f);
  } else if (k == 'A') {
    /* A:<coefficients>:<lo a/k>:<hi a/k> through lp_algebraic_number_construct on the open dyadic interval */
    char c[200], lo[200], hi[200];
    split2(rest, ':', c, a, sizeof(c));
    split2(a, ':', lo, hi, sizeof(lo));
    lp_upolynomial_t* f = poly_of(c);
    lp_dyadic_rational_t dl, dh; lp_dyadic_rational_construct(&dl); lp_dyadic_rational_construct(&dh);
    split2(lo, '/', a, b, sizeof(a)); mpz_set_str(&dl.a, a, 10); dl.n = strtoul(b, NULL, 10);
    split2(hi, '/', a, b, sizeof(a)); mpz_set_str(&dh.a, a, 10); dh.n = strtoul(b, NULL, 10);
    lp_dyadic_interval_t I; lp_dyadic_interval_construct(&I, &dl, 1, &dh, 1);
    lp_algebraic_number_t x; lp_algebraic_number_construct(&x, f, &I);   /* takes over f */
    lp_value_construct(v, LP_VALUE_ALGEBRAIC, &x);
    lp_algebraic_number_destruct(&x); lp_dyadic_interval_destruct(&I);
    lp_dyadic_rational_destruct(&dl); lp_dyadic_rational_destruct(&dh);
  } else die("bad value spec", spec);
}

static void pool_init(void) {
  for (int r = 0; r < NPOOL; ++r) {
    char buf[512]; strncpy(buf, POOL_SPEC[r], sizeof(buf) - 1); buf[sizeof(buf) - 1] = 0;
    char* save = NULL; nvar[r] = 0;
    for (char* t = strtok_r(buf, "|", &save); t && nvar[r] < MAXVAR; t = strtok_r(NULL, "|", &save))
      value_of_spec(&pool[r][nvar[r]++], t);
  }
  /* the assumption the rank model rests on (property C08): the pool is strictly increasing under lp_value_cmp,
     and the variants of one rank compare equal */
  for (int r = 0; r < NPOOL; ++r) {
    for (int i = 0; i < nvar[r]; ++i) for (int j = 0; j < nvar[r]; ++j)
      if (lp_value_cmp(&pool[r][i], &pool[r][j]) != 0) die("variants of one rank differ:", POOL_SPEC[r]);
    if (r + 1 < NPOOL)
      for (int i = 0; i < nvar[r]; ++i) for (int j = 0; j < nvar[r + 1]; ++j)
        if (!(lp_value_cmp(&pool[r][i], &pool[r + 1][j]) < 0 && lp_value_cmp(&pool[r + 1][j], &pool[r][i]) > 0))
          die("pool not strictly increasing at", POOL_SPEC[r]);
  }
}
static void pool_done(void) {
  for (int r = 0; r < NPOOL; ++r) for (int i = 0; i < nvar[r]; ++i) lp_value_destruct(&pool[r][i]);
}

/* ranks named by the current case: results of intersect / union only ever contain operand end points, so these
   are tried first (a speed-up only: every other rank is tried afterwards) */
static int cand[4 * 64 + 4], ncand;
static int rank_of(const lp_value_t* v) {
  for (int i = 0; i < ncand; ++i) if (lp_value_cmp(v, &pool[cand[i]][0]) == 0) return cand[i];
  for (int r = 0; r < NPOOL; ++r) if (lp_value_cmp(v, &pool[r][0]) == 0) return r;
  return -1;
}
/* position among doubled ranks: 2r for pool[r], 2r-1 for a value strictly between pool[r-1] and pool[r] */
static int pos2_of(const lp_value_t* v) {
  for (int r = 0; r < NPOOL; ++r) {
    int c = lp_value_cmp(v, &pool[r][0]);
    if (c == 0) return 2 * r;
    if (c < 0) return 2 * r - 1;
  }
  return 2 * NPOOL;
}

/* ------------------------------------------------------------------ parsing */
#define MAXIV 64
typedef struct { lp_value_t lo, hi; int lo_open, hi_open, is_point; } ivspec_t;

/* reads an end point up to one of the stop characters; rankmode: rank[.variant], else literal */
static const char* parse_endpoint(const char* s, const char* stops, int rankmode, lp_value_t* v) {
  char buf[300]; size_t n = 0;
  while (*s && !strchr(stops, *s) && n + 1 < sizeof(buf)) buf[n++] = *s++;
  buf[n] = 0;
  if (rankmode == 1) {
    int r = 0, var = 0;
    if (sscanf(buf, "%d.%d", &r, &var) < 1) die("bad rank", buf);
    if (r < 0 || r >= NPOOL) die("rank out of range", buf);
    if (var < 0) var = 0;
    var = var % nvar[r];
    lp_value_construct_copy(v, &pool[r][var]);
    { int seen = 0;
      for (int i = 0; i < ncand; ++i) if (cand[i] == r) seen = 1;
      if (!seen && ncand < (int)(sizeof(cand) / sizeof(cand[0]))) cand[ncand++] = r; }
  } else if (rankmode == 2) {
    if (!vio_parse(v, buf)) die("bad value token", buf);
  } else {
    value_of_spec(v, buf);
  }
  return s;
}

static int parse_set(const char* s, int rankmode, ivspec_t* out) {
  int n = 0;
  if (strcmp(s, "{}") == 0) return 0;
  while (*s) {
    if (n >= MAXIV) die("too many intervals", s);
    ivspec_t* I = &out[n];
    if (*s == '{') {
      s = parse_endpoint(s + 1, "}", rankmode, &I->lo);
      if (*s != '}') die("expected }", s);
      s++;
      lp_value_construct_copy(&I->hi, &I->lo);
      I->lo_open = I->hi_open = 0; I->is_point = 1;
    } else if (*s == '(' || *s == '[') {
      I->lo_open = (*s == '(');
      s = parse_endpoint(s + 1, rankmode == 2 ? "|" : ",", rankmode, &I->lo);
      if (*s != (rankmode == 2 ? '|' : ',')) die("expected separator", s);
      s = parse_endpoint(s + 1, ")]", rankmode, &I->hi);
      if (*s != ')' && *s != ']') die("expected ) or ]", s);
      I->hi_open = (*s == ')');
      I->is_point = 0;
      s++;
    } else die("bad interval", s);
    n++;
    if (*s == ';') s++;
    else if (*s) die("trailing garbage", s);
  }
  return n;
}
static void free_specs(ivspec_t* sp, int n) {
  for (int i = 0; i < n; ++i) { lp_value_destruct(&sp[i].lo); lp_value_destruct(&sp[i].hi); }
}

static void interval_of_spec(lp_interval_t* I, const ivspec_t* sp) {
  if (sp->is_point) lp_interval_construct_point(I, &sp->lo);
  else lp_interval_construct(I, &sp->lo, sp->lo_open, &sp->hi, sp->hi_open);
}

static lp_feasibility_set_t* set_of_specs(const ivspec_t* sp, int n) {
  if (n == 0) return lp_feasibility_set_new_empty();
  lp_interval_t* arr = malloc(sizeof(lp_interval_t) * n);
  for (int i = 0; i < n; ++i) interval_of_spec(&arr[i], &sp[i]);
  lp_feasibility_set_t* s = lp_feasibility_set_new_from_intervals(arr, n);   /* takes the intervals over (memcpy) */
  free(arr);
  return s;
}

/* ------------------------------------------------------------------ printing */
static char* sb; static size_t sbn, sbc;
static void sb_reset(void) { sbn = 0; if (sb) sb[0] = 0; }
static void sb_put(const char* s) {
  size_t l = strlen(s);
  if (sbn + l + 1 > sbc) { sbc = 2 * (sbn + l + 1) + 64; sb = realloc(sb, sbc); }
  memcpy(sb + sbn, s, l + 1); sbn += l;
}
static void sb_rank(const lp_value_t* v) {
  char t[32]; int r = rank_of(v);
  if (r < 0) sb_put("?"); else { snprintf(t, sizeof(t), "%d", r); sb_put(t); }
}
/* an interval as rank text; the struct invariants are shown when broken ('!' marks) */
static void sb_interval(const lp_interval_t* I) {
  if (I->is_point) {
    sb_put("{"); sb_rank(&I->a); sb_put("}");
    if (I->a_open || I->b_open) sb_put("!open-point");
  } else {
    sb_put(I->a_open ? "(" : "["); sb_rank(&I->a); sb_put(","); sb_rank(&I->b); sb_put(I->b_open ? ")" : "]");
    if (lp_value_cmp(&I->a, &I->b) >= 0) sb_put("!a>=b");
  }
}
static void sb_set(const lp_feasibility_set_t* s) {
  if (s->size == 0) { sb_put("{}"); return; }
  for (size_t i = 0; i < s->size; ++i) { if (i) sb_put(";"); sb_interval(&s->intervals[i]); }
}
static char* str_set(const lp_feasibility_set_t* s) { sb_reset(); sb_set(s); return strdup(sb); }

static void print_set(const lp_feasibility_set_t* s) { sb_reset(); sb_set(s); fputs(sb, stdout); }
static void print_interval(const lp_interval_t* I) { sb_reset(); sb_interval(I); fputs(sb, stdout); }

/* ------------------------------------------------------------------ operations */
static int probes[NPOOL], nprobes;
static void parse_probes(const char* s) {
  nprobes = 0;
  if (strcmp(s, "*") == 0) { for (int r = 0; r < NPOOL; ++r) probes[nprobes++] = r; return; }
  while (*s && nprobes < NPOOL) {
    int r = (int)strtol(s, (char**)&s, 10);
    if (r < 0 || r >= NPOOL) die("probe out of range", s);
    probes[nprobes++] = r;
    if (*s == ',') s++;
  }
}
static void sweep(const lp_feasibility_set_t* s) {
  for (int i = 0; i < nprobes; ++i) {
    int r = probes[i];
    /* use a different representation of the probed number now and then */
    const lp_value_t* v = &pool[r][(r + i) % nvar[r]];
    putchar(lp_feasibility_set_contains(s, v) ? '1' : '0');
  }
}
static void flags(const lp_feasibility_set_t* s) {
  printf("%d%d%d", lp_feasibility_set_is_empty(s) ? 1 : 0, lp_feasibility_set_is_full(s) ? 1 : 0,
         lp_feasibility_set_is_point(s) ? 1 : 0);
}
static void pick(const lp_feasibility_set_t* s) {
  if (lp_feasibility_set_is_empty(s)) { printf("-"); return; }
  lp_value_t v; lp_value_construct_zero(&v);
  lp_feasibility_set_pick_value(s, &v);
  printf("%d", pos2_of(&v));
  lp_value_destruct(&v);
}
static void hull(const lp_feasibility_set_t* s) {
  if (lp_feasibility_set_is_empty(s)) { printf("-"); return; }
  lp_interval_t J; lp_interval_construct_full(&J);           /* pre-used output */
  lp_feasibility_set_to_interval(s, &J);
  print_interval(&J);
  lp_interval_destruct(&J);
}

static void op_B(void) {
  static ivspec_t sp1[MAXIV], sp2[MAXIV];
  if (vntok != 4) { printf("BAD-CASE"); return; }
  parse_probes(vtok[1]);
  int n1 = parse_set(vtok[2], 1, sp1), n2 = parse_set(vtok[3], 1, sp2);
  lp_feasibility_set_t* s1 = set_of_specs(sp1, n1);
  lp_feasibility_set_t* s2 = set_of_specs(sp2, n2);
  char* before1 = str_set(s1); char* before2 = str_set(s2);

  lp_feasibility_set_intersect_status_t st = (lp_feasibility_set_intersect_status_t)77;
  lp_feasibility_set_t* si = lp_feasibility_set_intersect_with_status(s1, s2, &st);
  lp_feasibility_set_t* sj = lp_feasibility_set_intersect(s1, s2);
  lp_feasibility_set_t* su = lp_feasibility_set_new_copy(s1); lp_feasibility_set_add(su, s2);
  lp_feasibility_set_t* sv = lp_feasibility_set_new_copy(s2); lp_feasibility_set_add(sv, s1);
  lp_feasibility_set_t* sa = lp_feasibility_set_new_copy(s1); lp_feasibility_set_add(sa, sa);       /* aliased */
  lp_feasibility_set_t* sk = lp_feasibility_set_intersect(s1, s1);                                   /* aliased */
  /* union into a set that was used before (assign, then add) */
  lp_feasibility_set_t* sw = lp_feasibility_set_new_full(); lp_feasibiliy_set_assign(sw, s1); lp_feasibility_set_add(sw, s2);

  printf("i:"); print_set(si); printf(":%d", (int)st);
  printf(" j:"); print_set(sj);
  printf(" u:"); print_set(su);
  printf(" v:"); print_set(sv);
  printf(" a:"); print_set(sa);
  printf(" k:"); print_set(sk);
  printf(" w:"); print_set(sw);
  printf(" f:"); flags(s1); flags(s2); flags(si); flags(su);
  printf(" m:"); sweep(s1); putchar(','); sweep(s2); putchar(','); sweep(si); putchar(','); sweep(su);
  printf(" c:");
  for (size_t i = 0; i < s1->size; ++i) for (size_t j = 0; j < s2->size; ++j)
    printf("%d", (int)lp_interval_cmp(&s1->intervals[i], &s2->intervals[j]));
  printf(" t:"); hull(s1); putchar(','); hull(su);
  printf(" p:"); pick(s1); putchar(','); pick(s2); putchar(','); pick(si); putchar(','); pick(su);
  /* the operands are const: unchanged afterwards */
  char* after1 = str_set(s1); char* after2 = str_set(s2);
  printf(" o:%d%d", strcmp(before1, after1) == 0 ? 1 : 0, strcmp(before2, after2) == 0 ? 1 : 0);

  free(before1); free(before2); free(after1); free(after2);
  lp_feasibility_set_delete(si); lp_feasibility_set_delete(sj); lp_feasibility_set_delete(su);
  lp_feasibility_set_delete(sv); lp_feasibility_set_delete(sa); lp_feasibility_set_delete(sk);
  lp_feasibility_set_delete(sw);
  lp_feasibility_set_delete(s1); lp_feasibility_set_delete(s2);
  free_specs(sp1, n1); free_specs(sp2, n2);
}

static char sgnc(int c) { return c < 0 ? '-' : (c > 0 ? '+' : '0'); }

static void op_C(void) {
  static ivspec_t sp1[MAXIV], sp2[MAXIV];
  if (vntok != 3) { printf("BAD-CASE"); return; }
  int n1 = parse_set(vtok[1], 1, sp1), n2 = parse_set(vtok[2], 1, sp2);
  if (n1 != 1 || n2 != 1) { printf("BAD-CASE"); free_specs(sp1, n1); free_specs(sp2, n2); return; }
  lp_interval_t I1, I2, P, Q;
  interval_of_spec(&I1, &sp1[0]); interval_of_spec(&I2, &sp2[0]);
  lp_interval_construct_zero(&P);       /* fresh output: [0,0] */
  lp_interval_construct_full(&Q);       /* pre-used output: (-inf,+inf) */
  int r0 = (int)lp_interval_cmp(&I1, &I2);
  int r1 = (int)lp_interval_cmp_with_intersect(&I1, &I2, &P);
  int r2 = (int)lp_interval_cmp_with_intersect(&I1, &I2, &Q);
  printf("r:%d%d%d p:", r0, r1, r2); print_interval(&P); printf(" q:"); print_interval(&Q);
  printf(" lb:%c ub:%c", sgnc(lp_interval_cmp_lower_bounds(&I1, &I2)), sgnc(lp_interval_cmp_upper_bounds(&I1, &I2)));
  printf(" cv:");
  for (int r = 0; r < NPOOL; ++r) putchar(sgnc(lp_interval_cmp_value(&I1, &pool[r][r % nvar[r]])));
  printf(" in:");
  for (int r = 0; r < NPOOL; ++r) putchar(lp_interval_contains(&I2, &pool[r][0]) ? '1' : '0');
  printf(" pt:%d%d", lp_interval_is_point(&I1) ? 1 : 0, lp_interval_is_point(&I2) ? 1 : 0);
  lp_interval_destruct(&I1); lp_interval_destruct(&I2); lp_interval_destruct(&P); lp_interval_destruct(&Q);
  free_specs(sp1, n1); free_specs(sp2, n2);
}

static void print_value_q(const lp_value_t* v) {
  if (v->type == LP_VALUE_MINUS_INFINITY) { printf("-inf"); return; }
  if (v->type == LP_VALUE_PLUS_INFINITY) { printf("+inf"); return; }
  if (!lp_value_is_rational(v)) { printf("irrational"); return; }
  lp_integer_t n, d; mpz_init(&n); mpz_init(&d);
  lp_value_get_num(v, &n); lp_value_get_den(v, &d);
  print_z(&n); putchar('/'); print_z(&d);
  mpz_clear(&n); mpz_clear(&d);
}

static void op_Q(void) {
  static ivspec_t sp[MAXIV];
  if (vntok != 2) { printf("BAD-CASE"); return; }
  int n = parse_set(vtok[1], 0, sp);
  lp_feasibility_set_t* s = set_of_specs(sp, n);
  printf("ci:%d cnt:%ld pi:%d", lp_feasibility_set_contains_int(s) ? 1 : 0, lp_feasibility_set_count_int(s),
         lp_feasibility_set_is_point_int(s) ? 1 : 0);
  printf(" ici:");
  for (size_t i = 0; i < s->size; ++i) putchar(lp_interval_contains_int(&s->intervals[i]) ? '1' : '0');
  printf(" icnt:");
  for (size_t i = 0; i < s->size; ++i) printf("%s%ld", i ? "," : "", lp_interval_count_int(&s->intervals[i]));
  printf(" pk:");
  if (s->size == 0) printf("-");
  else {
    lp_value_t v; lp_value_construct_int(&v, 12345);          /* pre-used output */
    lp_feasibility_set_pick_value(s, &v);
    print_value_q(&v);
    lp_value_destruct(&v);
  }
  printf(" ipk:");
  for (size_t i = 0; i < s->size; ++i) {
    lp_value_t v; lp_value_construct_zero(&v);
    lp_interval_pick_value(&s->intervals[i], &v);
    if (i) putchar(',');
    print_value_q(&v);
    lp_value_destruct(&v);
  }
  if (s->size == 0) printf("-");
  printf(" pf:");
  if (s->size == 0) printf("-");
  else {
    lp_value_t v; lp_value_construct_zero(&v);
    lp_feasibility_set_pick_first_value(s, &v);
    print_value_q(&v);
    lp_value_destruct(&v);
  }
  lp_feasibility_set_delete(s);
  free_specs(sp, n);
}

static unsigned long ncases;
/* a long run (the exhaustive tier feeds 262144 cases to one process) slows down badly with ASan's default
   256 MB quarantine of freed blocks; 16 MB still catches use-after-free of these small short-lived objects.
   (Defaults only: ASAN_OPTIONS of the environment still applies on top.) */
const char* __asan_default_options(void) { return "quarantine_size_mb=16:malloc_context_size=5"; }
/* A <set>: integer queries and picks on a set whose end points are valio tokens (algebraic numbers included);
   interval syntax [e|e)  (e|e]  {e}  separated by ';' */
static void op_A(void) {
  static ivspec_t sp[MAXIV];
  if (vntok != 2) { printf("BAD-CASE"); return; }
  int n = parse_set(vtok[1], 2, sp);
  lp_feasibility_set_t* s = set_of_specs(sp, n);
  printf("ci:%d cnt:%ld pi:%d", lp_feasibility_set_contains_int(s) ? 1 : 0, lp_feasibility_set_count_int(s),
         lp_feasibility_set_is_point_int(s) ? 1 : 0);
  printf(" ici:");
  for (size_t i = 0; i < s->size; ++i) putchar(lp_interval_contains_int(&s->intervals[i]) ? '1' : '0');
  printf(" icnt:");
  for (size_t i = 0; i < s->size; ++i) printf("%s%ld", i ? "," : "", lp_interval_count_int(&s->intervals[i]));
  printf(" pk:");
  if (s->size == 0) printf("-");
  else {
    lp_value_t v; lp_value_construct_int(&v, 12345);          /* pre-used output */
    lp_feasibility_set_pick_value(s, &v);
    vio_print(&v);
    lp_value_destruct(&v);
  }
  printf(" ipk:");
  for (size_t i = 0; i < s->size; ++i) {
    lp_value_t v; lp_value_construct_zero(&v);
    lp_interval_pick_value(&s->intervals[i], &v);
    if (i) putchar(';');
    vio_print(&v);
    lp_value_destruct(&v);
  }
  if (s->size == 0) printf("-");
  printf(" pf:");
  if (s->size == 0) printf("-");
  else {
    lp_value_t v; lp_value_construct_zero(&v);
    lp_feasibility_set_pick_first_value(s, &v);
    vio_print(&v);
    lp_value_destruct(&v);
  }
  lp_feasibility_set_delete(s);
  free_specs(sp, n);
}

/* ---- S: set operations on sets whose end points are valio tokens */
static void vset_print(const lp_feasibility_set_t* s) {
  if (s->size == 0) { printf("{}"); return; }
  for (size_t i = 0; i < s->size; ++i) {
    const lp_interval_t* I = &s->intervals[i];
    if (i) putchar(';');
    if (I->is_point) { putchar('{'); vio_print(&I->a); putchar('}'); if (I->a_open || I->b_open) printf("!open-point"); }
    else { putchar(I->a_open ? '(' : '['); vio_print(&I->a); putchar('|'); vio_print(&I->b); putchar(I->b_open ? ')' : ']'); }
  }
}
static void int_queries(const lp_feasibility_set_t* s) {
  printf("%d,%ld,%d,", lp_feasibility_set_contains_int(s) ? 1 : 0, lp_feasibility_set_count_int(s),
         lp_feasibility_set_is_point_int(s) ? 1 : 0);
  for (size_t i = 0; i < s->size; ++i) putchar(lp_interval_contains_int(&s->intervals[i]) ? '1' : '0');
  putchar(',');
  for (size_t i = 0; i < s->size; ++i) printf("%s%ld", i ? "+" : "", lp_interval_count_int(&s->intervals[i]));
}
static void vpick(const lp_feasibility_set_t* s) {
  if (lp_feasibility_set_is_empty(s)) { printf("-"); return; }
  lp_value_t v; lp_value_construct_int(&v, 12345);            /* pre-used output */
  lp_feasibility_set_pick_value(s, &v);
  vio_print(&v);
  lp_value_destruct(&v);
}
static void vsweep(const lp_feasibility_set_t* s, const ivspec_t* sp, int n) {
  for (int i = 0; i < n; ++i) {
    putchar(lp_feasibility_set_contains(s, &sp[i].lo) ? '1' : '0');
    putchar(lp_feasibility_set_contains(s, &sp[i].hi) ? '1' : '0');
  }
}
static void op_S(void) {
  static ivspec_t sp1[MAXIV], sp2[MAXIV];
  if (vntok != 3) { printf("BAD-CASE"); return; }
  int n1 = parse_set(vtok[1], 2, sp1), n2 = parse_set(vtok[2], 2, sp2);
  lp_feasibility_set_t* s1 = set_of_specs(sp1, n1);
  lp_feasibility_set_t* s2 = set_of_specs(sp2, n2);
  lp_feasibility_set_intersect_status_t st = (lp_feasibility_set_intersect_status_t)77;
  lp_feasibility_set_t* si = lp_feasibility_set_intersect_with_status(s1, s2, &st);
  lp_feasibility_set_t* su = lp_feasibility_set_new_copy(s1); lp_feasibility_set_add(su, s2);
  lp_feasibility_set_t* sv = lp_feasibility_set_new_copy(s2); lp_feasibility_set_add(sv, s1);
  printf("i:"); vset_print(si); printf(" st:%d", (int)st);
  printf(" u:"); vset_print(su);
  printf(" v:"); vset_print(sv);
  printf(" f:"); flags(si); flags(su);
  printf(" q1:"); int_queries(s1); printf(" q2:"); int_queries(s2);
  printf(" qi:"); int_queries(si); printf(" qu:"); int_queries(su);
  printf(" ki:"); vpick(si); printf(" ku:"); vpick(su);
  /* membership of every operand end point (infinite ends included) in the results */
  printf(" m:"); vsweep(si, sp1, n1); vsweep(si, sp2, n2); putchar(','); vsweep(su, sp1, n1); vsweep(su, sp2, n2);
  lp_feasibility_set_delete(si); lp_feasibility_set_delete(su); lp_feasibility_set_delete(sv);
  lp_feasibility_set_delete(s1); lp_feasibility_set_delete(s2);
  free_specs(sp1, n1); free_specs(sp2, n2);
}

int main(void) {
  pool_init();
  while (next_case()) {
    if (vntok == 0) { end_case(); continue; }
    ncand = 0;
    alarm(30);   /* watchdog: a case takes milliseconds; a hang (e.g. a non-terminating binary search) kills the
                    driver, which the pipeline reports as a crash on this case */
    /* comparisons refine the isolating intervals of the pool's algebraic numbers in place (ever longer dyadic
       end points, ever slower comparisons): rebuild the pool now and then */
    if (++ncases % 500 == 0) { pool_done(); pool_init(); }
    if (is_op("B")) op_B();
    else if (is_op("C")) op_C();
    else if (is_op("Q")) op_Q();
    else if (is_op("A")) op_A();
    else if (is_op("S")) op_S();
    else if (is_op("POOL")) printf("%d", NPOOL);
    else printf("UNKNOWN-OP");
    end_case();
  }
  alarm(0);
  pool_done();
  free(sb); free(vline);
  return 0;
}
