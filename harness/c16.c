/* C16 driver: bound inference and Fourier-Motzkin resolution (src/polynomial/polynomial.c).
 *
 *   ib <order> <poly> <cond> <negated> <pre>
 *        order : permutation of 0..7, bottom variable first, comma separated
 *        cond  : lt le eq ne gt ge          negated, pre : 0/1
 *        pre=1 : the interval assignment holds [i, i+1] for every x_i before the call (pre-used output)
 *     -> <ret> I0 .. I7 E0 .. E7
 *        Ii = <a_open>|<lower>|<upper>|<b_open>   the interval of x_i read back with
 *             lp_interval_assignment_get_interval (values as valio.h tokens)
 *        Ei = the polynomial of lp_polynomial_constraint_explain_infer_bounds(.., x_i) (polyio.h text) or "null"
 *
 *   fm <order> <p1> <c1> <p2> <c2> <rmode> <v0> .. <v7>
 *        vi    : value of x_i under the model (valio.h token) or "none"
 *        rmode : 0 fresh R, fresh assumptions   1 pre-used R (x0^3+7) and one pre-existing assumption
 *                2 R is the same object as p1    3 R is the same object as p2
 *     -> <ok> <R|-> <cond|-> <n> A1 s1 .. An sn
 *        R and cond only when ok = 1; Ai = the polynomials APPENDED to the assumptions vector, si = the sign
 *        of Ai under the model as lp_polynomial_sgn computes it. */
#include "polyio.h"
#include "valio.h"
#include <assignment.h>
#include <interval.h>
#include <polynomial_vector.h>
#include <sign_condition.h>

static int parse_cond(const char* s, lp_sign_condition_t* c) {
  if (!strcmp(s, "lt")) { *c = LP_SGN_LT_0; return 1; }
  if (!strcmp(s, "le")) { *c = LP_SGN_LE_0; return 1; }
  if (!strcmp(s, "eq")) { *c = LP_SGN_EQ_0; return 1; }
  if (!strcmp(s, "ne")) { *c = LP_SGN_NE_0; return 1; }
  if (!strcmp(s, "gt")) { *c = LP_SGN_GT_0; return 1; }
  if (!strcmp(s, "ge")) { *c = LP_SGN_GE_0; return 1; }
  return 0;
}
static const char* cond_name(lp_sign_condition_t c) {
  switch (c) {
  case LP_SGN_LT_0: return "lt"; case LP_SGN_LE_0: return "le"; case LP_SGN_EQ_0: return "eq";
  case LP_SGN_NE_0: return "ne"; case LP_SGN_GT_0: return "gt"; case LP_SGN_GE_0: return "ge";
  }
  return "??";
}
static int set_order(const char* s) {
  int perm[PIO_NV], n = 0;
  const char* c = s;
  while (*c && n < PIO_NV) { perm[n++] = (int) strtol(c, (char**)&c, 10); if (*c == ',') ++c; }
  for (int i = 0; i < n; ++i) if (perm[i] < 0 || perm[i] >= PIO_NV) return 0;
  pio_set_order(perm, n);
  return n == PIO_NV;
}
static void print_interval(const lp_interval_t* I) {
  printf("%d|", (int) I->a_open); vio_print(lp_interval_get_lower_bound(I)); putchar('|');
  vio_print(lp_interval_get_upper_bound(I)); printf("|%d", (int) I->b_open);
}

static void do_ib(void) {
  lp_sign_condition_t cond;
  if (vntok > 0 && vtok[vntok-1][0] == '#') --vntok;
  if (vntok != 6 || !set_order(vtok[1]) || !parse_cond(vtok[3], &cond)) { printf("BAD-CASE"); return; }
  lp_polynomial_t* A = pio_new(vtok[2]);
  int negated = atoi(vtok[4]), pre = atoi(vtok[5]);
  lp_interval_assignment_t* M = lp_interval_assignment_new(pio_db);
  if (pre) {
    for (int i = 0; i < PIO_NV; ++i) {
      lp_value_t a, b; lp_value_construct_int(&a, i); lp_value_construct_int(&b, i + 1);
      lp_interval_t I; lp_interval_construct(&I, &a, 0, &b, 0);
      lp_interval_assignment_set_interval(M, pio_x[i], &I);
      lp_interval_destruct(&I); lp_value_destruct(&a); lp_value_destruct(&b);
    }
  }
  int ret = lp_polynomial_constraint_infer_bounds(A, cond, negated, M);
  printf("%d", ret);
  for (int i = 0; i < PIO_NV; ++i) { putchar(' '); print_interval(lp_interval_assignment_get_interval(M, pio_x[i])); }
  for (int i = 0; i < PIO_NV; ++i) {
    lp_polynomial_t* e = lp_polynomial_constraint_explain_infer_bounds(A, cond, negated, pio_x[i]);
    putchar(' ');
    if (e) { pio_print(e); lp_polynomial_delete(e); } else printf("null");
  }
  lp_interval_assignment_delete(M);
  lp_polynomial_delete(A);
}

static void do_fm(void) {
  lp_sign_condition_t c1, c2;
  if (vntok > 0 && vtok[vntok-1][0] == '#') --vntok;
  if (vntok != 7 + PIO_NV || !set_order(vtok[1]) || !parse_cond(vtok[3], &c1) || !parse_cond(vtok[5], &c2)) { printf("BAD-CASE"); return; }
  lp_polynomial_t* p1 = pio_new(vtok[2]);
  lp_polynomial_t* p2 = pio_new(vtok[4]);
  int rmode = atoi(vtok[6]);
  lp_assignment_t* M = lp_assignment_new(pio_db);
  int bad = 0;
  for (int i = 0; i < PIO_NV; ++i) {
    const char* t = vtok[7 + i];
    if (strcmp(t, "none") == 0) continue;
    lp_value_t v;
    if (!vio_parse(&v, t)) { bad = 1; continue; }
    lp_assignment_set_value(M, pio_x[i], &v);
    lp_value_destruct(&v);
  }
  if (bad) { printf("BAD-VALUE"); lp_assignment_delete(M); lp_polynomial_delete(p1); lp_polynomial_delete(p2); return; }
  lp_polynomial_vector_t* as = lp_polynomial_vector_new(pio_ctx);
  lp_polynomial_t* Rown = NULL;
  lp_polynomial_t* R;
  if (rmode == 2) R = p1;
  else if (rmode == 3) R = p2;
  else {
    Rown = (rmode == 1) ? pio_new("1*x0^3+7") : lp_polynomial_new(pio_ctx);
    R = Rown;
    if (rmode == 1) { lp_polynomial_t* junk = pio_new("1*x1^1+-4"); lp_polynomial_vector_push_back(as, junk); lp_polynomial_delete(junk); }
  }
  size_t n0 = lp_polynomial_vector_size(as);
  lp_sign_condition_t rc = LP_SGN_NE_0;
  int ok = lp_polynomial_constraint_resolve_fm(p1, c1, p2, c2, M, R, &rc, as);
  printf("%d ", ok);
  if (ok) { pio_print(R); printf(" %s", cond_name(rc)); } else printf("- -");
  size_t n1 = lp_polynomial_vector_size(as);
  printf(" %zu", n1 - n0);
  for (size_t i = n0; i < n1; ++i) {
    lp_polynomial_t* a = lp_polynomial_vector_at(as, i);
    putchar(' '); pio_print(a);
    printf(" %d", sgn_of(lp_polynomial_sgn(a, M)));
    lp_polynomial_delete(a);
  }
  lp_polynomial_vector_delete(as);
  if (Rown) lp_polynomial_delete(Rown);
  lp_assignment_delete(M);
  lp_polynomial_delete(p1); lp_polynomial_delete(p2);
}

int main(void) {
  pio_init(lp_Z);
  while (next_case()) {
    if (vntok == 0) { end_case(); continue; }
    if (is_op("ib")) do_ib();
    else if (is_op("fm")) do_fm();
    else printf("UNKNOWN-OP");
    end_case();
  }
  free(vline); free(pio_terms);
  pio_done();
  return 0;
}
