/* C18 driver: a case is a HISTORY - order changes interleaved with operations on external and non-external
 * polynomials.  One token per command (fields separated by ':'):
 *   ord:2,0,1  push:3  pop  rev  clear  top:3 top:-  bot:3 bot:-          the variable order of the context
 *   new:TEXT  copy:i  fresh:i (new object parsed from the canonical text of i under the order in force)
 *   ext:i  assign:i:j  swap:i:j  ens:i  hash:i  vmove:i
 *   add|sub|mul|gcd|res|addmul|submul|lcm:r:a:b   neg|der|cont|pp|reductum:r:a   pow|shl|mulc:r:a:n   mono:i:TERM
 *   eq:i:j  cmp:i:j  heq:i:j                                              observations E0/1 C0/1 H0/1
 * Non-external operands that do not match the order are brought in order explicitly (lp_polynomial_ensure_order)
 * before an operation reads them - external ones are left to the library (lp_polynomial_external_clean).
 * After every command the driver prints " ;", the observation if any, and for EVERY live object its canonical
 * monomial text and lp_polynomial_check_order, both obtained WITHOUT cleaning the object (coefficient_traverse on
 * the data as it is), so that a missing or wrong re-ordering inside the library stays visible. */
#include "polyio.h"
#include "valio.h"
#include <assignment.h>
#include <polynomial_vector.h>
#include "polynomial/polynomial.h"
#include "polynomial/coefficient.h"
#include "variable/variable_order.h"

#define MAXOBJ 200
static lp_polynomial_t* obj[MAXOBJ];
static int nobj;

/* canonical text of the data as it is (no external_clean) */
static char* raw_text(const lp_polynomial_t* p) {
  pio_nterms = 0;
  lp_monomial_t m; lp_monomial_construct(pio_ctx, &m);
  coefficient_traverse(pio_ctx, &p->data, pio_collect, &m, NULL);
  lp_monomial_destruct(&m);
  char* buf = NULL; size_t len = 0;
  FILE* f = open_memstream(&buf, &len);
  if (pio_nterms == 0) fputs("0", f);
  qsort(pio_terms, pio_nterms, sizeof(pio_term_t), pio_term_cmp_desc);
  for (size_t i = 0; i < pio_nterms; ++i) {
    if (i) fputc('+', f);
    fputs(pio_terms[i].coef, f);
    for (int k = 0; k < pio_terms[i].nv; ++k) fprintf(f, "*x%d^%lu", pio_terms[i].var[k], pio_terms[i].exp[k]);
    free(pio_terms[i].coef);
  }
  fclose(f);
  return buf;
}

static void dump(void) {
  for (int i = 0; i < nobj; ++i) {
    char* t = raw_text(obj[i]);
    printf(" %s/%d", t, lp_polynomial_check_order(obj[i]) ? 1 : 0);
    free(t);
  }
}

/* explicit re-ordering of a non-external operand */
static void prep(lp_polynomial_t* p) {
  if (!p->external && !lp_polynomial_check_order(p)) lp_polynomial_ensure_order(p);
}

static int fields(char* tok, char** f, int max) {
  int n = 0; char* save = NULL;
  for (char* t = strtok_r(tok, ":", &save); t && n < max; t = strtok_r(NULL, ":", &save)) f[n++] = t;
  return n;
}
static int idx(const char* s) { int i = atoi(s); if (i < 0 || i >= nobj) { printf(" BAD-INDEX"); return -1; } return i; }
static void add_obj(lp_polynomial_t* p) { if (nobj < MAXOBJ) obj[nobj++] = p; else lp_polynomial_delete(p); }

/* the same operation on operands built afresh under the order in force must give the same result */
typedef void (*bin_f)(lp_polynomial_t*, const lp_polynomial_t*, const lp_polynomial_t*);
static int route_check(bin_f op, const lp_polynomial_t* res, const lp_polynomial_t* a, const lp_polynomial_t* b) {
  char* ta = raw_text(a); char* tb = raw_text(b);
  lp_polynomial_t* fa = pio_new(ta); lp_polynomial_t* fb = pio_new(tb); lp_polynomial_t* fr = lp_polynomial_new(pio_ctx);
  op(fr, fa, fb);
  char* t1 = raw_text(res); char* t2 = raw_text(fr);
  int same = strcmp(t1, t2) == 0 && lp_polynomial_eq(res, fr) && lp_polynomial_cmp(res, fr) == 0
             && lp_polynomial_hash(res) == lp_polynomial_hash(fr);
  free(ta); free(tb); free(t1); free(t2);
  lp_polynomial_delete(fa); lp_polynomial_delete(fb); lp_polynomial_delete(fr);
  return same;
}

/* ---- cross-order cases:  xorder <op> <A> <B|-> <k> <order_1> .. <order_k> <val_0> .. <val_n>
 * order_i = digits of the listed variables, bottom first ("-" = none listed); val_j = valio token of x_j or `none`.
 * For every order: the operands are built under the PREVIOUS order of the list (the default x0<..<x7 first),
 * marked external, the order is switched and the operation is run; results separated by " | ".
 *   gl  gcd lcm            ar  add sub mul           rp  t<main var of A> t<of B> resultant prem (X unless equal)
 *   cpd t<main var> cont pp derivative               se  s<sgn> value of evaluate
 *   ri  t<main var> count roots... (X unless the main variable is the unassigned one) */
static void set_order_digits(const char* s) {
  int perm[PIO_NV]; int n = 0;
  if (strcmp(s, "-") != 0) for (; s[n] && n < PIO_NV; ++n) perm[n] = s[n] - '0';
  pio_set_order(perm, n);
}
static void put_text(const lp_polynomial_t* p) { char* t = raw_text(p); printf(" %s", t); free(t); }
static void put_topvar(const lp_polynomial_t* p) {
  lp_variable_t v = lp_polynomial_top_variable(p);
  if (v == lp_variable_null) printf(" t-"); else printf(" t%d", pio_var_index(v));
}
static void xorder_case(void) {
  if (vntok < 6) { printf("badinput"); return; }
  const char* op = vtok[1]; const char* ta = vtok[2]; const char* tb = vtok[3]; int k = atoi(vtok[4]);
  if (vntok < 5 + k) { printf("badinput"); return; }
  lp_assignment_t* m = lp_assignment_new(pio_db);
  for (int i = 0; 5 + k + i < vntok && i < PIO_NV; ++i) {
    if (strcmp(vtok[5 + k + i], "none") == 0) continue;
    lp_value_t v;
    if (!vio_parse(&v, vtok[5 + k + i])) { printf("badinput"); lp_assignment_delete(m); return; }
    lp_assignment_set_value(m, pio_x[i], &v); lp_value_destruct(&v);
  }
  const char* prev = "01234567";
  for (int j = 0; j < k; ++j) {
    set_order_digits(prev);
    lp_polynomial_t* A = pio_new(ta); lp_polynomial_set_external(A);
    lp_polynomial_t* B = strcmp(tb, "-") ? pio_new(tb) : NULL; if (B) lp_polynomial_set_external(B);
    lp_polynomial_t* R = lp_polynomial_new(pio_ctx);
    set_order_digits(vtok[5 + j]);
    if (j) printf(" |");
    if (!strcmp(op, "gl") && B) {
      if (lp_polynomial_is_zero(A) || lp_polynomial_is_zero(B)) printf(" X");
      else { lp_polynomial_gcd(R, A, B); put_text(R); lp_polynomial_lcm(R, A, B); put_text(R); }
    } else if (!strcmp(op, "ar") && B) {
      lp_polynomial_add(R, A, B); put_text(R); lp_polynomial_sub(R, A, B); put_text(R); lp_polynomial_mul(R, A, B); put_text(R);
    } else if (!strcmp(op, "rp") && B) {
      put_topvar(A); put_topvar(B);
      lp_variable_t va = lp_polynomial_top_variable(A), vb = lp_polynomial_top_variable(B);
      if (va == lp_variable_null || va != vb) printf(" X");
      else { lp_polynomial_resultant(R, A, B); put_text(R); lp_polynomial_prem(R, A, B); put_text(R); }
    } else if (!strcmp(op, "cpd")) {
      put_topvar(A);
      if (lp_polynomial_is_zero(A)) printf(" X");
      else { lp_polynomial_cont(R, A); put_text(R); lp_polynomial_pp(R, A); put_text(R); lp_polynomial_derivative(R, A); put_text(R); }
    } else if (!strcmp(op, "se")) {
      printf(" s%d ", lp_polynomial_sgn(A, m));
      lp_value_t* v = lp_polynomial_evaluate(A, m); vio_print(v); lp_value_delete(v);
      printf(" s%d", lp_polynomial_sgn(A, m));
    } else if (!strcmp(op, "ri")) {
      put_topvar(A);
      lp_variable_t va = lp_polynomial_top_variable(A);
      if (va == lp_variable_null || lp_assignment_get_value(m, va)->type != LP_VALUE_NONE) printf(" X");
      else {
        size_t n = 0, deg = lp_polynomial_degree(A);
        lp_value_t* roots = malloc((deg + 1) * sizeof(lp_value_t));
        lp_polynomial_roots_isolate(A, m, roots, &n);
        printf(" %zu", n);
        for (size_t i = 0; i < n; ++i) { putchar(' '); vio_print(&roots[i]); lp_value_destruct(&roots[i]); }
        free(roots);
      }
    } else printf(" UNKNOWN-OP");
    /* the operand still denotes what it was built from (a public operation cleans it if none has so far) */
    (void) lp_polynomial_top_variable(A);
    put_text(A); printf("/%d", lp_polynomial_check_order(A) ? 1 : 0);
    lp_polynomial_delete(A); if (B) lp_polynomial_delete(B); lp_polynomial_delete(R);
    prev = vtok[5 + j];
  }
  lp_assignment_delete(m);
}

int main(void) {
  while (next_case()) {
    pio_init(NULL);
    nobj = 0;
    if (is_op("xorder")) { xorder_case(); pio_done(); end_case(); continue; }
    for (int k = 0; k < vntok; ++k) {
      char* f[8]; int nf = fields(vtok[k], f, 8);
      printf(k ? " ;" : ";");
      if (nf == 0) { printf(" UNKNOWN-OP"); continue; }
      const char* c = f[0];
      if (!strcmp(c, "ord")) {
        int perm[PIO_NV]; int n = 0;
        if (nf > 1) { char* save = NULL; for (char* t = strtok_r(f[1], ",", &save); t && n < PIO_NV; t = strtok_r(NULL, ",", &save)) perm[n++] = atoi(t); }
        pio_set_order(perm, n);
      }
      else if (!strcmp(c, "push")) { lp_variable_order_push(pio_order, pio_x[atoi(f[1])]); }
      else if (!strcmp(c, "pop")) { lp_variable_order_pop(pio_order); }
      else if (!strcmp(c, "rev")) { lp_variable_order_reverse(pio_order); }
      else if (!strcmp(c, "clear")) { lp_variable_order_clear(pio_order); }
      else if (!strcmp(c, "top")) { lp_variable_order_make_top(pio_order, f[1][0] == '-' ? lp_variable_null : pio_x[atoi(f[1])]); }
      else if (!strcmp(c, "bot")) { lp_variable_order_make_bot(pio_order, f[1][0] == '-' ? lp_variable_null : pio_x[atoi(f[1])]); }
      else if (!strcmp(c, "new")) { add_obj(pio_new(f[1])); }
      else if (!strcmp(c, "copy")) { int i = idx(f[1]); if (i >= 0) add_obj(lp_polynomial_new_copy(obj[i])); }
      else if (!strcmp(c, "fresh")) { int i = idx(f[1]); if (i >= 0) { char* t = raw_text(obj[i]); add_obj(pio_new(t)); free(t); } }
      else if (!strcmp(c, "ext")) { int i = idx(f[1]); if (i >= 0) lp_polynomial_set_external(obj[i]); }
      else if (!strcmp(c, "assign")) { int i = idx(f[1]), j = idx(f[2]); if (i >= 0 && j >= 0) lp_polynomial_assign(obj[i], obj[j]); }
      else if (!strcmp(c, "swap")) { int i = idx(f[1]), j = idx(f[2]); if (i >= 0 && j >= 0) lp_polynomial_swap(obj[i], obj[j]); }
      else if (!strcmp(c, "ens")) { int i = idx(f[1]); if (i >= 0) lp_polynomial_ensure_order(obj[i]); }
      else if (!strcmp(c, "hash")) { int i = idx(f[1]); if (i >= 0) (void) lp_polynomial_hash(obj[i]); }
      else if (!strcmp(c, "vmove")) {
        int i = idx(f[1]);
        if (i >= 0) { lp_polynomial_vector_t* v = lp_polynomial_vector_new(pio_ctx); lp_polynomial_vector_push_back_move(v, obj[i]); lp_polynomial_vector_delete(v); }
      }
      else if (!strcmp(c, "add") || !strcmp(c, "sub") || !strcmp(c, "mul") || !strcmp(c, "gcd") || !strcmp(c, "res") || !strcmp(c, "addmul")) {
        int r = idx(f[1]), a = idx(f[2]), b = idx(f[3]);
        if (r >= 0 && a >= 0 && b >= 0) {
          prep(obj[a]); prep(obj[b]);
          if (!strcmp(c, "add")) lp_polynomial_add(obj[r], obj[a], obj[b]);
          else if (!strcmp(c, "sub")) lp_polynomial_sub(obj[r], obj[a], obj[b]);
          else if (!strcmp(c, "mul")) lp_polynomial_mul(obj[r], obj[a], obj[b]);
          else if (!strcmp(c, "addmul")) { prep(obj[r]); lp_polynomial_add_mul(obj[r], obj[a], obj[b]); }
          else if (!strcmp(c, "gcd")) {
            lp_polynomial_gcd(obj[r], obj[a], obj[b]);
            if (r != a && r != b) printf(" R%d", route_check(lp_polynomial_gcd, obj[r], obj[a], obj[b])); else printf(" R1");
          }
          else {
            /* resultant: both operands must have the same main variable (lp_polynomial_top_variable cleans them) */
            lp_variable_t va = lp_polynomial_top_variable(obj[a]);
            lp_variable_t vb = lp_polynomial_top_variable(obj[b]);
            if (va == lp_variable_null || vb == lp_variable_null || va != vb) printf(" X");
            else {
              lp_polynomial_resultant(obj[r], obj[a], obj[b]);
              if (r != a && r != b) printf(" R%d", route_check(lp_polynomial_resultant, obj[r], obj[a], obj[b])); else printf(" R1");
            }
          }
        }
      }
      else if (!strcmp(c, "cont") || !strcmp(c, "pp") || !strcmp(c, "reductum")) {
        /* r := cont(a) / pp(a) / reductum(a); the value is C01's and C04's subject: X when outside the domain */
        int r = idx(f[1]), a = idx(f[2]);
        if (r >= 0 && a >= 0) {
          prep(obj[a]);
          if (lp_polynomial_is_zero(obj[a]) || (c[0] == 'r' && lp_polynomial_is_constant(obj[a]))) printf(" X");
          else if (c[0] == 'c') lp_polynomial_cont(obj[r], obj[a]);
          else if (c[0] == 'p') lp_polynomial_pp(obj[r], obj[a]);
          else lp_polynomial_reductum(obj[r], obj[a]);
        }
      }
      else if (!strcmp(c, "lcm") || !strcmp(c, "submul")) {
        int r = idx(f[1]), a = idx(f[2]), b = idx(f[3]);
        if (r >= 0 && a >= 0 && b >= 0) {
          prep(obj[a]); prep(obj[b]);
          if (c[0] == 's') { prep(obj[r]); lp_polynomial_sub_mul(obj[r], obj[a], obj[b]); }
          else if (lp_polynomial_is_zero(obj[a]) || lp_polynomial_is_zero(obj[b])) printf(" X");
          else lp_polynomial_lcm(obj[r], obj[a], obj[b]);
        }
      }
      else if (!strcmp(c, "mulc") || !strcmp(c, "shl")) {
        int r = idx(f[1]), a = idx(f[2]);
        if (r >= 0 && a >= 0) {
          prep(obj[a]);
          if (c[0] == 'm') { lp_integer_t k; lp_integer_construct_from_string(lp_Z, &k, f[3], 10); lp_polynomial_mul_integer(obj[r], obj[a], &k); lp_integer_destruct(&k); }
          else if (lp_polynomial_is_constant(obj[a])) printf(" X");
          else lp_polynomial_shl(obj[r], obj[a], (unsigned) atoi(f[3]));
        }
      }
      else if (!strcmp(c, "neg") || !strcmp(c, "der")) {
        int r = idx(f[1]), a = idx(f[2]);
        if (r >= 0 && a >= 0) { prep(obj[a]); if (c[0] == 'n') lp_polynomial_neg(obj[r], obj[a]); else lp_polynomial_derivative(obj[r], obj[a]); }
      }
      else if (!strcmp(c, "pow")) {
        int r = idx(f[1]), a = idx(f[2]);
        if (r >= 0 && a >= 0) { prep(obj[a]); lp_polynomial_pow(obj[r], obj[a], (unsigned) atoi(f[3])); }
      }
      else if (!strcmp(c, "mono")) {
        int i = idx(f[1]);
        if (i >= 0) {
          prep(obj[i]);
          /* one term "c*xI^E*..." */
          const char* s = f[2]; const char* e = s; if (*e == '-') ++e; while (*e >= '0' && *e <= '9') ++e;
          char* num = strndup(s, (size_t)(e - s));
          lp_integer_t a; lp_integer_construct_from_string(lp_Z, &a, num, 10); free(num);
          lp_monomial_t m; lp_monomial_construct(pio_ctx, &m); lp_monomial_set_coefficient(pio_ctx, &m, &a);
          s = e;
          while (*s == '*') { s += 2; int xi = (int) strtol(s, (char**)&s, 10); ++s; unsigned long ex = strtoul(s, (char**)&s, 10); if (ex > 0) lp_monomial_push(&m, pio_x[xi], (size_t) ex); }
          lp_polynomial_add_monomial(obj[i], &m);
          lp_monomial_destruct(&m); lp_integer_destruct(&a);
        }
      }
      else if (!strcmp(c, "eq") || !strcmp(c, "cmp") || !strcmp(c, "heq")) {
        int i = idx(f[1]), j = idx(f[2]);
        if (i >= 0 && j >= 0) {
          if (c[0] == 'h') printf(" H%d", lp_polynomial_hash(obj[i]) == lp_polynomial_hash(obj[j]) ? 1 : 0);
          else { prep(obj[i]); prep(obj[j]);
                 if (c[0] == 'e') printf(" E%d", lp_polynomial_eq(obj[i], obj[j]) ? 1 : 0);
                 else printf(" C%d", lp_polynomial_cmp(obj[i], obj[j]) == 0 ? 1 : 0); }
        }
      }
      else printf(" UNKNOWN-OP");
      dump();
    }
    for (int i = 0; i < nobj; ++i) lp_polynomial_delete(obj[i]);
    pio_done();
    end_case();
  }
  free(pio_terms);
  free(vline);
  return 0;
}
