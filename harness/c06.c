/* C06 driver: real root counting and isolation of univariate integer polynomials through the public API
 * (lp_upolynomial_roots_count / _roots_isolate / _sturm_sequence).
 *
 * case   : c06 <poly c0,c1,..,cn> <k> { <lo_num> <lo_den> <lo_open> <hi_num> <hi_den> <hi_open> }*k
 * output : N <whole-line count> C <count_1> .. <count_k>
 *          I <n> { P <num> <exp>  |  A <poly> <lo_num> <lo_exp> <hi_num> <hi_exp> <sgn_at_a> <sgn_at_b> }*n
 *          S <m> <poly_1> .. <poly_m>
 * dyadic ends are printed raw (numerator, power-of-two exponent) as stored in lp_algebraic_number_struct.
 * flag "nosturm" as the last token: do not call lp_upolynomial_sturm_sequence (prints "S 0"). */
#include "common.h"
#include <unistd.h>
#include <integer.h>
#include <rational.h>
#include <dyadic_rational.h>
#include <upolynomial.h>
#include <algebraic_number.h>
#include <rational_interval.h>
#include <dyadic_interval.h>

static lp_upolynomial_t* parse_upoly(const char* s) {
  /* c0,c1,...,cn */
  size_t n = 1;
  for (const char* c = s; *c; ++c) if (*c == ',') ++n;
  lp_integer_t* cs = malloc(n * sizeof(lp_integer_t));
  char* dup = strdup(s);
  char* save = NULL;
  size_t i = 0;
  for (char* t = strtok_r(dup, ",", &save); t; t = strtok_r(NULL, ",", &save)) {
    lp_integer_construct_from_string(lp_Z, &cs[i++], t, 10);
  }
  lp_upolynomial_t* p = lp_upolynomial_construct(lp_Z, n - 1, cs);
  for (size_t j = 0; j < n; ++j) lp_integer_destruct(&cs[j]);
  free(cs); free(dup);
  return p;
}

static void print_upoly(const lp_upolynomial_t* p) {
  size_t d = lp_upolynomial_degree(p);
  lp_integer_t* cs = malloc((d + 1) * sizeof(lp_integer_t));
  for (size_t j = 0; j <= d; ++j) lp_integer_construct_from_int(lp_Z, &cs[j], 0);
  lp_upolynomial_unpack(p, cs);
  for (size_t j = 0; j <= d; ++j) { if (j) putchar(','); print_z(&cs[j]); lp_integer_destruct(&cs[j]); }
  free(cs);
}

static void setq(lp_rational_t* q, const char* a, const char* b) {
  lp_integer_t n, d; mpz_init_set_str(&n, a, 10); mpz_init_set_str(&d, b, 10);
  lp_rational_construct_from_div(q, &n, &d); mpz_clear(&n); mpz_clear(&d);
}

static void pdy(const lp_dyadic_rational_t* d) { print_z(&d->a); printf(" %lu", d->n); }

int main(void) {
  while (next_case()) {
    alarm(30);   /* a case that does not finish within 30 s is reported as a crash of that case */
    if (vntok < 3 || !is_op("c06")) { printf("UNKNOWN-OP"); end_case(); continue; }
    int nosturm = strcmp(vtok[vntok - 1], "nosturm") == 0;
    lp_upolynomial_t* f = parse_upoly(vtok[1]);
    int k = atoi(vtok[2]);
    /* whole line */
    printf("N %d C", lp_upolynomial_roots_count(f, NULL));
    for (int i = 0; i < k; ++i) {
      int b = 3 + 6 * i;
      lp_rational_t lo, hi; setq(&lo, vtok[b], vtok[b+1]); setq(&hi, vtok[b+3], vtok[b+4]);
      lp_rational_interval_t I;
      lp_rational_interval_construct(&I, &lo, atoi(vtok[b+2]), &hi, atoi(vtok[b+5]));
      printf(" %d", lp_upolynomial_roots_count(f, &I));
      lp_rational_interval_destruct(&I);
      lp_rational_destruct(&lo); lp_rational_destruct(&hi);
    }
    /* isolation */
    size_t deg = lp_upolynomial_degree(f);
    lp_algebraic_number_t* roots = malloc((deg + 1) * sizeof(lp_algebraic_number_t));
    size_t n = 0;
    lp_upolynomial_roots_isolate(f, roots, &n);
    printf(" I %zu", n);
    for (size_t i = 0; i < n; ++i) {
      const lp_algebraic_number_t* r = &roots[i];
      if (r->f == NULL) { printf(" P "); pdy(&r->I.a); }
      else {
        printf(" A "); print_upoly(r->f); putchar(' '); pdy(&r->I.a); putchar(' '); pdy(&r->I.b);
        printf(" %d %d", r->sgn_at_a, r->sgn_at_b);
      }
    }
    for (size_t i = 0; i < n; ++i) lp_algebraic_number_destruct(&roots[i]);
    free(roots);
    /* Sturm sequence */
    if (nosturm) printf(" S 0");
    else {
      lp_upolynomial_t** S = NULL; size_t m = 0;
      lp_upolynomial_sturm_sequence(f, &S, &m);
      printf(" S %zu", m);
      for (size_t i = 0; i < m; ++i) { putchar(' '); print_upoly(S[i]); lp_upolynomial_delete(S[i]); }
      free(S);
    }
    lp_upolynomial_delete(f);
    end_case();
  }
  free(vline);
  return 0;
}
