/* C01 driver: exact ring arithmetic in Z[x..], Z_m[x..] (lp_polynomial_*) and Z[x], Z_m[x] (lp_upolynomial_*).
 *
 *  mv K PERM N p1..pN OP...   multivariate: a pool of N polynomials of the ring K (0 = Z) under the variable
 *                             order PERM ("2,0,1" bottom first, "-" = nothing listed), then operations applied
 *                             IN PLACE on the pool.  After every operation the whole pool is printed.
 *  uv K N u1..uN OP...        univariate: a pool of N dense coefficient lists "c0,c1,..,cn" (zeros allowed
 *                             anywhere, also on top), operations replace pool entries.
 *
 * Output (one line): steps separated by " ;"; a step prints op-specific observations ("=...") and then every
 * pool object: multivariate  text:degree:top   (canonical text of polyio.h, lp_polynomial_degree, index of the
 * top variable or -1), followed by "!<why>" when the stored representation is not in canonical form
 * (a non-zero entry at or above `size`, size < 2, zero leading entry, sub-coefficient not below the main
 * variable); univariate  degree:nterms:c0,..,cdeg. */
#include "polyio.h"
#include <upolynomial.h>
#include <assignment.h>
#include <value.h>
#include <variable_list.h>
#include <rational.h>
#include <dyadic_rational.h>
#include "polynomial/polynomial.h"
#include "polynomial/coefficient.h"
#include "upolynomial/upolynomial.h"

#define MAXPOOL 8

static lp_int_ring_t* mkring(const char* m) {
  if (strcmp(m, "0") == 0) return lp_Z;
  lp_integer_t M; mpz_init_set_str(&M, m, 10);
  int pr = mpz_probab_prime_p(&M, 25) ? 1 : 0;
  lp_int_ring_t* K = lp_int_ring_create(&M, pr);
  mpz_clear(&M);
  return K;
}
static void rmring(lp_int_ring_t* K) { if (K) lp_int_ring_detach(K); }

static void set_order_from(const char* s) {
  int perm[PIO_NV]; int n = 0;
  if (strcmp(s, "-") != 0) {
    const char* c = s;
    while (*c) { perm[n++] = (int) strtol(c, (char**)&c, 10); if (*c == ',') ++c; }
  }
  pio_set_order(perm, n);
}

/* ---- canonical-form check of the stored representation */
static const char* rep_problem(const lp_polynomial_context_t* ctx, const coefficient_t* C) {
  if (C->type == COEFFICIENT_NUMERIC) return NULL;
  if (C->type != COEFFICIENT_POLYNOMIAL) return "type";
  if (SIZE(C) < 2) return "size<2";
  if (SIZE(C) > CAPACITY(C)) return "size>capacity";
  for (size_t i = SIZE(C); i < CAPACITY(C); ++i) {
    const coefficient_t* e = COEFF(C, i);
    if (e->type != COEFFICIENT_NUMERIC || mpz_sgn(&e->value.num) != 0) return "stored-term-above-size";
  }
  const coefficient_t* lc = COEFF(C, SIZE(C) - 1);
  if (lc->type == COEFFICIENT_NUMERIC && mpz_sgn(&lc->value.num) == 0) return "zero-lc";
  for (size_t i = 0; i < SIZE(C); ++i) {
    const coefficient_t* e = COEFF(C, i);
    if (e->type == COEFFICIENT_POLYNOMIAL && lp_variable_order_cmp(ctx->var_order, VAR(C), VAR(e)) <= 0) return "order";
    const char* r = rep_problem(ctx, e);
    if (r) return r;
  }
  return NULL;
}

/* canonical text of p (same as pio_print) in a malloc'ed string */
static char* pio_sprint(const lp_polynomial_t* p) {
  char* buf = NULL; size_t len = 0;
  FILE* f = open_memstream(&buf, &len);
  pio_nterms = 0;
  lp_polynomial_traverse(p, pio_collect, NULL);
  if (pio_nterms == 0) fputs("0", f);
  else {
    qsort(pio_terms, pio_nterms, sizeof(pio_term_t), pio_term_cmp_desc);
    for (size_t i = 0; i < pio_nterms; ++i) {
      if (i) fputc('+', f);
      fputs(pio_terms[i].coef, f);
      for (int k = 0; k < pio_terms[i].nv; ++k) fprintf(f, "*x%d^%lu", pio_terms[i].var[k], pio_terms[i].exp[k]);
      free(pio_terms[i].coef);
    }
  }
  fclose(f);
  return buf;
}

/* Prints text:degree:top[!problem] of p and returns the text (caller frees).  lp_polynomial_degree and
 * lp_polynomial_top_variable are ALSO called as the first API call on operands that nothing has touched since
 * pio_new (with VERIF_STALE=1 these are external polynomials still laid out for the reversed order); the two
 * answers must agree, else both are printed. */
static char* print_obj(const lp_polynomial_t* p) {
  char* t = pio_sprint(p);
  fputs(t, stdout);
  lp_variable_t top = lp_polynomial_top_variable(p);
  size_t deg = lp_polynomial_degree(p);
  int topi = lp_polynomial_is_constant(p) ? -1 : pio_var_index(top);
  lp_polynomial_t* f1 = pio_new(t); size_t deg1 = lp_polynomial_degree(f1); lp_polynomial_delete(f1);
  lp_polynomial_t* f2 = pio_new(t); lp_variable_t top1 = lp_polynomial_top_variable(f2);
  int topi1 = lp_polynomial_is_constant(f2) ? -1 : pio_var_index(top1); lp_polynomial_delete(f2);
  printf(":%zu:%d", deg, topi);
  if (deg1 != deg || topi1 != topi) printf("(fresh-operand:%zu:%d)", deg1, topi1);
  const char* r = rep_problem(p->ctx, &p->data);
  if (r) printf("!%s", r);
  return t;
}

/* ---- univariate helpers */
static lp_upolynomial_t* u_parse(lp_int_ring_t* K, const char* s) {
  /* dense list c0,c1,...,cn */
  size_t n = 1; for (const char* c = s; *c; ++c) if (*c == ',') ++n;
  lp_integer_t* cs = malloc(n * sizeof(lp_integer_t));
  const char* c = s;
  for (size_t i = 0; i < n; ++i) {
    const char* e = c; while (*e && *e != ',') ++e;
    char* num = strndup(c, (size_t)(e - c));
    mpz_init_set_str(&cs[i], num, 10); free(num);
    c = *e ? e + 1 : e;
  }
  lp_upolynomial_t* u = lp_upolynomial_construct(K, n - 1, cs);
  for (size_t i = 0; i < n; ++i) mpz_clear(&cs[i]);
  free(cs);
  return u;
}
static void u_print(const lp_upolynomial_t* u) {
  size_t d = lp_upolynomial_degree(u);
  lp_integer_t* cs = malloc((d + 1) * sizeof(lp_integer_t));
  for (size_t i = 0; i <= d; ++i) mpz_init(&cs[i]);
  lp_upolynomial_unpack(u, cs);
  printf("%zu:%zu:", d, u->size);
  for (size_t i = 0; i <= d; ++i) { if (i) putchar(','); print_z(&cs[i]); mpz_clear(&cs[i]); }
  free(cs);
}


/* parse "v0,..,v7" into an assignment; only variables whose bit is set in mask are assigned */
static lp_assignment_t* mk_assignment(const char* vals, unsigned mask) {
  lp_assignment_t* M = lp_assignment_new(pio_db);
  const char* c = vals;
  for (int i = 0; i < PIO_NV; ++i) {
    const char* e = c; while (*e && *e != ',') ++e;
    if (mask & (1u << i)) {
      char* num = strndup(c, (size_t)(e - c));
      lp_integer_t v; mpz_init_set_str(&v, num, 10); free(num);
      lp_value_t val; lp_value_construct(&val, LP_VALUE_INTEGER, &v);
      lp_assignment_set_value(M, pio_x[i], &val);
      lp_value_destruct(&val); mpz_clear(&v);
    }
    c = *e ? e + 1 : e;
  }
  return M;
}
/* a term "c*xI^E..." as a monomial, variables pushed in the order written; built through the lp_monomial_*
 * helpers: an extra power is pushed and popped again, the result is assigned to `out` and the scratch cleared */
static void mk_monomial(const char* text, lp_monomial_t* out, int sort) {
  const char* c = text;
  const char* e = c; if (*e == '-') ++e; while (*e >= '0' && *e <= '9') ++e;
  char* num = strndup(c, (size_t)(e - c));
  lp_integer_t a; mpz_init_set_str(&a, num, 10); free(num);
  lp_monomial_t m; lp_monomial_construct(pio_ctx, &m); lp_monomial_set_coefficient(pio_ctx, &m, &a);
  c = e;
  while (*c == '*') { c += 2; int idx = (int) strtol(c, (char**)&c, 10); ++c; unsigned long ex = strtoul(c, (char**)&c, 10);
    if (ex > 0) lp_monomial_push(&m, pio_x[idx], (size_t) ex); }
  lp_monomial_push(&m, pio_x[PIO_NV - 1], 17); lp_monomial_pop(&m);
  lp_monomial_assign(pio_ctx, out, &m, sort);
  lp_monomial_clear(pio_ctx, &m);
  lp_monomial_destruct(&m); mpz_clear(&a);
}
/* coefficient and powers by increasing variable index */
static void print_monomial(const lp_monomial_t* m) {
  print_z(&m->a);
  for (int v = 0; v < PIO_NV; ++v)
    for (size_t i = 0; i < m->n; ++i)
      if (pio_var_index(m->p[i].x) == v && m->p[i].d > 0) printf("*x%d^%zu", v, m->p[i].d);
}

#define IDX(j) atoi(vtok[k + (j)])
/* the operations that write a pool object; executed on the array Q (the pool, or fresh operands); returns the
 * number of tokens of the operation, 0 if vtok[k] is not such an operation */
static int do_op(lp_polynomial_t** Q, int k) {
  const char* op = vtok[k];
  if (!strcmp(op, "add")) { lp_polynomial_add(Q[IDX(1)], Q[IDX(2)], Q[IDX(3)]); return 4; }
  if (!strcmp(op, "sub")) { lp_polynomial_sub(Q[IDX(1)], Q[IDX(2)], Q[IDX(3)]); return 4; }
  if (!strcmp(op, "mul")) { lp_polynomial_mul(Q[IDX(1)], Q[IDX(2)], Q[IDX(3)]); return 4; }
  if (!strcmp(op, "addmul")) { lp_polynomial_add_mul(Q[IDX(1)], Q[IDX(2)], Q[IDX(3)]); return 4; }
  if (!strcmp(op, "submul")) { lp_polynomial_sub_mul(Q[IDX(1)], Q[IDX(2)], Q[IDX(3)]); return 4; }
  if (!strcmp(op, "neg")) { lp_polynomial_neg(Q[IDX(1)], Q[IDX(2)]); return 3; }
  if (!strcmp(op, "asg")) { lp_polynomial_assign(Q[IDX(1)], Q[IDX(2)]); return 3; }
  if (!strcmp(op, "der")) { lp_polynomial_derivative(Q[IDX(1)], Q[IDX(2)]); return 3; }
  if (!strcmp(op, "red")) { lp_polynomial_reductum(Q[IDX(1)], Q[IDX(2)]); return 3; }
  if (!strcmp(op, "gcoef")) { lp_polynomial_get_coefficient(Q[IDX(1)], Q[IDX(2)], (size_t) IDX(3)); return 4; }
  if (!strcmp(op, "mulc")) {
    lp_integer_t c; mpz_init_set_str(&c, vtok[k + 3], 10);
    lp_polynomial_mul_integer(Q[IDX(1)], Q[IDX(2)], &c); mpz_clear(&c); return 4;
  }
  if (!strcmp(op, "pow")) { lp_polynomial_pow(Q[IDX(1)], Q[IDX(2)], (unsigned) IDX(3)); return 4; }
  if (!strcmp(op, "shl")) { lp_polynomial_shl(Q[IDX(1)], Q[IDX(2)], (unsigned) IDX(3)); return 4; }
  if (!strcmp(op, "addmon")) {
    /* one term "c*xI^E..." added with lp_polynomial_add_monomial, variables pushed in the order written */
    const char* c = vtok[k + 2];
    const char* e = c; if (*e == '-') ++e; while (*e >= '0' && *e <= '9') ++e;
    char* num = strndup(c, (size_t)(e - c));
    lp_integer_t a; mpz_init_set_str(&a, num, 10); free(num);
    lp_monomial_t m; lp_monomial_construct(pio_ctx, &m); lp_monomial_set_coefficient(pio_ctx, &m, &a);
    c = e;
    while (*c == '*') { c += 2; int idx = (int) strtol(c, (char**)&c, 10); ++c; unsigned long ex = strtoul(c, (char**)&c, 10);
      if (ex > 0) lp_monomial_push(&m, pio_x[idx], (size_t) ex); }
    lp_polynomial_add_monomial(Q[IDX(1)], &m);
    lp_monomial_destruct(&m); mpz_clear(&a); return 3;
  }
  if (!strcmp(op, "addmon2")) {
    /* add_monomial with a monomial produced by the lp_monomial_* helpers, and through a copy */
    lp_monomial_t m, m2; lp_monomial_construct(pio_ctx, &m);
    mk_monomial(vtok[k + 2], &m, 0);
    lp_monomial_construct_copy(pio_ctx, &m2, &m, IDX(1) % 2);
    lp_polynomial_add_monomial(Q[IDX(1)], &m2);
    lp_monomial_destruct(&m); lp_monomial_destruct(&m2); return 3;
  }
  return 0;
}
static int op_is_dest(const char* op) {
  static const char* names[] = {"add","sub","mul","addmul","submul","neg","asg","der","red","gcoef","mulc","pow","shl","addmon","addmon2",NULL};
  for (int i = 0; names[i]; ++i) if (!strcmp(op, names[i])) return 1;
  return 0;
}
/* number of leading pool indices among the arguments of a destination operation */
static int op_nidx(const char* op) {
  if (!strcmp(op, "add") || !strcmp(op, "sub") || !strcmp(op, "mul") || !strcmp(op, "addmul") || !strcmp(op, "submul")) return 3;
  if (!strcmp(op, "addmon") || !strcmp(op, "addmon2")) return 1;
  return 2;
}

static void run_mv(void) {
  lp_int_ring_t* K = mkring(vtok[1]);
  pio_init(K);
  set_order_from(vtok[2]);
  int n = atoi(vtok[3]);
  lp_polynomial_t* P[MAXPOOL];
  char* T[MAXPOOL];              /* canonical text of the current value of every pool object */
  for (int i = 0; i < n; ++i) P[i] = pio_new(vtok[4 + i]);
  int k = 4 + n;
  /* initial pool */
  for (int i = 0; i < n; ++i) { if (i) putchar(' '); T[i] = print_obj(P[i]); }
/* an operand with the value of pool object j that no API call has touched since pio_new */
#define FRESH(j) pio_new(T[j])
  while (k < vntok) {
    const char* op = vtok[k];
    printf(" ;");
#define IDX(j) atoi(vtok[k + (j)])
    if (op_is_dest(op)) {
      int ni = op_nidx(op);
      if ((!strcmp(op, "shl") || !strcmp(op, "red")) && lp_polynomial_is_constant(P[IDX(2)])) {
        /* documented for non-constant polynomials only */
        printf("=skip"); k += !strcmp(op, "shl") ? 4 : 3;
      } else {
        /* first on FRESH operands (rebuilt from the current values; nothing has touched them since pio_new, same
         * aliasing pattern), then in place on the pool objects with their histories: same result expected */
        lp_polynomial_t* F[MAXPOOL]; for (int i = 0; i < MAXPOOL; ++i) F[i] = NULL;
        for (int j = 1; j <= ni; ++j) if (!F[IDX(j)]) F[IDX(j)] = pio_new(T[IDX(j)]);
        do_op(F, k);
        char* ft = pio_sprint(F[IDX(1)]); printf("~%s", ft); free(ft);
        for (int i = 0; i < MAXPOOL; ++i) if (F[i]) lp_polynomial_delete(F[i]);
        k += do_op(P, k);
      }
    }
    else if (!strcmp(op, "ord")) {
      set_order_from(vtok[k + 1]);
      for (int i = 0; i < n; ++i) lp_polynomial_ensure_order(P[i]);
      k += 2;
    }
    else if (!strcmp(op, "evi")) {
      /* all variables assigned integers v0,..,v7 */
      lp_assignment_t* M = lp_assignment_new(pio_db);
      const char* c = vtok[k + 2];
      for (int i = 0; i < PIO_NV; ++i) {
        const char* e = c; while (*e && *e != ',') ++e;
        char* num = strndup(c, (size_t)(e - c));
        lp_integer_t v; mpz_init_set_str(&v, num, 10); free(num);
        lp_value_t val; lp_value_construct(&val, LP_VALUE_INTEGER, &v);
        lp_assignment_set_value(M, pio_x[i], &val);
        lp_value_destruct(&val); mpz_clear(&v);
        c = *e ? e + 1 : e;
      }
      lp_integer_t out; mpz_init(&out);
      { lp_polynomial_t* A = FRESH(IDX(1)); lp_polynomial_evaluate_integer(A, M, &out); lp_polynomial_delete(A); }
      printf("="); print_z(&out);
      mpz_clear(&out); lp_assignment_delete(M); k += 3;
    }
    else if (!strcmp(op, "touni")) {
      /* multivariate -> univariate -> multivariate round trip of P[a] */
      lp_polynomial_t* A = FRESH(IDX(1));
      lp_upolynomial_t* u = lp_polynomial_to_univariate(A);
      if (!u) printf("=none");
      else {
        printf("="); u_print(u);
        lp_variable_t x = lp_polynomial_is_constant(A) ? pio_x[0] : lp_polynomial_top_variable(A);
        lp_polynomial_t* back = lp_upolynomial_to_polynomial(u, pio_ctx, x);
        printf("="); free(print_obj(back));
        lp_polynomial_delete(back); lp_upolynomial_delete(u);
      }
      lp_polynomial_delete(A);
      k += 2;
    }
    else if (!strcmp(op, "fromuni")) {
      /* P[d] := dense univariate list in variable x (zero coefficients allowed everywhere) */
      lp_upolynomial_t* u = u_parse(K, vtok[k + 3]);
      lp_polynomial_t* q = lp_upolynomial_to_polynomial(u, pio_ctx, pio_x[IDX(2)]);
      lp_polynomial_swap(q, P[IDX(1)]);
      lp_polynomial_delete(q); lp_upolynomial_delete(u); k += 4;
    }
    else if (!strcmp(op, "obs")) {
      /* observers of one pool object */
      int a = IDX(1);
#define OBS(var, expr) do { lp_polynomial_t* A = FRESH(a); var = (expr); lp_polynomial_delete(A); } while (0)
      int o_lin, o_uni, o_mon, o_sgn, o_lcc;
      OBS(o_lin, lp_polynomial_is_linear(A)); OBS(o_uni, lp_polynomial_is_univariate(A)); OBS(o_mon, lp_polynomial_is_monomial(A));
      OBS(o_sgn, lp_polynomial_lc_sgn(A)); OBS(o_lcc, lp_polynomial_lc_is_constant(A));
      lp_integer_t lcc; mpz_init(&lcc);
      { lp_polynomial_t* A = FRESH(a); lp_polynomial_lc_constant(A, &lcc); lp_polynomial_delete(A); }
      printf("=L%dU%dM%dS%dC%d:", o_lin, o_uni, o_mon, o_sgn, o_lcc);
      print_z(&lcc); mpz_clear(&lcc);
      lp_variable_list_t vars; lp_variable_list_construct(&vars);
      { lp_polynomial_t* A = FRESH(a); lp_polynomial_get_variables(A, &vars); lp_polynomial_delete(A); }
      printf(":V");
      for (int v = 0; v < PIO_NV; ++v) if (lp_variable_list_contains(&vars, pio_x[v])) printf("%d,", v);
      printf("#%zu", lp_variable_list_size(&vars));
      lp_variable_list_destruct(&vars);
      { lp_polynomial_t* A = FRESH(a); lp_polynomial_t cp; lp_polynomial_construct_copy(&cp, A); printf(":K"); pio_print(&cp);
        lp_polynomial_destruct(&cp); lp_polynomial_delete(A); }
      if (o_mon) {
        lp_polynomial_t* A = FRESH(a);
        lp_monomial_t m; lp_monomial_construct(pio_ctx, &m); lp_polynomial_to_monomial(A, &m);
        printf(":T"); print_monomial(&m); lp_monomial_destruct(&m); lp_polynomial_delete(A);
      }
      k += 2;
    }
    else if (!strcmp(op, "isas")) {
      lp_assignment_t* M = mk_assignment(vtok[k + 3], (unsigned) IDX(2));
      { lp_polynomial_t* A = FRESH(IDX(1)); printf("=%d", lp_polynomial_is_assigned(A, M)); lp_polynomial_delete(A); }
      lp_assignment_delete(M); k += 4;
    }
    else if (!strcmp(op, "touvm")) {
      /* to_univariate under an integer assignment: every variable except possibly the main one must be assigned */
      const lp_polynomial_t* A = P[IDX(1)]; unsigned mask = (unsigned) IDX(2);
      lp_variable_list_t vars; lp_variable_list_construct(&vars); lp_polynomial_get_variables(A, &vars);
      lp_variable_t top = lp_polynomial_top_variable(A);
      int okk = 1;
      for (int v = 0; v < PIO_NV; ++v)
        if (lp_variable_list_contains(&vars, pio_x[v]) && pio_x[v] != top && !(mask & (1u << v))) okk = 0;
      lp_variable_list_destruct(&vars);
      if (!okk) printf("=skip");
      else {
        lp_assignment_t* M = mk_assignment(vtok[k + 3], mask);
        lp_polynomial_t* Af = FRESH(IDX(1));
        lp_upolynomial_t* u = lp_polynomial_to_univariate_m(Af, M);
        lp_polynomial_delete(Af);
        printf("="); u_print(u); lp_upolynomial_delete(u); lp_assignment_delete(M);
      }
      k += 4;
    }
    else if (!strcmp(op, "mgcd")) {
      if (K != lp_Z) printf("=skip");
      else {
        lp_monomial_t m1, m2, g; lp_monomial_construct(pio_ctx, &m1); lp_monomial_construct(pio_ctx, &m2); lp_monomial_construct(pio_ctx, &g);
        mk_monomial(vtok[k + 1], &m1, 1); mk_monomial(vtok[k + 2], &m2, 1);
        lp_monomial_gcd(pio_ctx, &g, &m1, &m2);
        printf("="); print_monomial(&g);
        lp_monomial_destruct(&m1); lp_monomial_destruct(&m2); lp_monomial_destruct(&g);
      }
      k += 3;
    }
    else { printf("UNKNOWN-OP %s", op); break; }
    for (int i = 0; i < n; ++i) { putchar(' '); free(T[i]); T[i] = print_obj(P[i]); }
  }
  for (int i = 0; i < n; ++i) { lp_polynomial_delete(P[i]); free(T[i]); }
  pio_done();
  rmring(K);
}

static void run_uv(void) {
  lp_int_ring_t* K = mkring(vtok[1]);
  int n = atoi(vtok[2]);
  lp_upolynomial_t* U[MAXPOOL];
  for (int i = 0; i < n; ++i) U[i] = u_parse(K, vtok[3 + i]);
  int k = 3 + n;
  for (int i = 0; i < n; ++i) { if (i) putchar(' '); u_print(U[i]); }
  while (k < vntok) {
    const char* op = vtok[k];
    printf(" ;");
    lp_upolynomial_t* r = NULL; int d = -1;
    if (!strcmp(op, "add")) { d = IDX(1); r = lp_upolynomial_add(U[IDX(2)], U[IDX(3)]); k += 4; }
    else if (!strcmp(op, "sub")) { d = IDX(1); r = lp_upolynomial_sub(U[IDX(2)], U[IDX(3)]); k += 4; }
    else if (!strcmp(op, "mul")) { d = IDX(1); r = lp_upolynomial_mul(U[IDX(2)], U[IDX(3)]); k += 4; }
    else if (!strcmp(op, "neg")) { d = IDX(1); r = lp_upolynomial_neg(U[IDX(2)]); k += 3; }
    else if (!strcmp(op, "der")) { d = IDX(1); r = lp_upolynomial_derivative(U[IDX(2)]); k += 3; }
    else if (!strcmp(op, "pow")) { d = IDX(1); r = lp_upolynomial_pow(U[IDX(2)], (long) IDX(3)); k += 4; }
    else if (!strcmp(op, "mulc")) {
      lp_integer_t c; mpz_init_set_str(&c, vtok[k + 3], 10);
      d = IDX(1); r = lp_upolynomial_mul_c(U[IDX(2)], &c); mpz_clear(&c); k += 4;
    }
    else if (!strcmp(op, "evi")) {
      lp_integer_t x, v; mpz_init_set_str(&x, vtok[k + 2], 10); mpz_init_set_str(&v, "-77777777777777777777777", 10);
      lp_upolynomial_evaluate_at_integer(U[IDX(1)], &x, &v);
      printf("="); print_z(&v); mpz_clear(&x); mpz_clear(&v); k += 3;
    }
    else if (!strcmp(op, "evq")) {
      /* rational point num/den (K = Z only) */
      lp_integer_t a, b; mpz_init_set_str(&a, vtok[k + 2], 10); mpz_init_set_str(&b, vtok[k + 3], 10);
      /* the output is a PRE-USED object: it keeps the result of the previous evaluation of this process (first: 5/8) */
      static lp_rational_t v; static int v_live = 0;
      if (!v_live) { lp_rational_construct_from_int(&v, 5, 8); v_live = 1; }
      lp_rational_t x; lp_rational_construct_from_div(&x, &a, &b);
      lp_upolynomial_evaluate_at_rational(U[IDX(1)], &x, &v);
      printf("="); print_z(mpq_numref(&v)); putchar('/'); print_z(mpq_denref(&v));
      lp_rational_destruct(&x); mpz_clear(&a); mpz_clear(&b); k += 4;
    }
    else if (!strcmp(op, "evd")) {
      /* dyadic point a/2^n (K = Z only) */
      lp_integer_t a; mpz_init_set_str(&a, vtok[k + 2], 10);
      /* the output is a PRE-USED object: it keeps the result of the previous evaluation of this process (first: 5/8),
         so a proper dyadic fraction is regularly followed by an integer result in the same object and vice versa */
      static lp_dyadic_rational_t v; static int v_live = 0;
      if (!v_live) { lp_dyadic_rational_construct_from_int(&v, 5, 3); v_live = 1; }
      lp_dyadic_rational_t x; lp_dyadic_rational_construct_from_integer(&x, &a);
      lp_dyadic_rational_div_2exp(&x, &x, strtoul(vtok[k + 3], NULL, 10));
      lp_upolynomial_evaluate_at_dyadic_rational(U[IDX(1)], &x, &v);
      printf("="); print_z(&v.a); printf("/%lu", v.n);
      lp_dyadic_rational_destruct(&x); mpz_clear(&a); k += 4;
    }
    else if (!strcmp(op, "topoly")) {
      /* univariate -> multivariate (variable x<j>) -> univariate */
      pio_init(K);
      lp_polynomial_t* p = lp_upolynomial_to_polynomial(U[IDX(1)], pio_ctx, pio_x[IDX(2)]);
      printf("="); free(print_obj(p));
      lp_upolynomial_t* back = lp_polynomial_to_univariate(p);
      printf("="); if (back) { u_print(back); lp_upolynomial_delete(back); } else printf("none");
      lp_polynomial_delete(p); pio_done(); k += 3;
    }
    else if (!strcmp(op, "sgi")) {
      lp_integer_t x; mpz_init_set_str(&x, vtok[k + 2], 10);
      printf("=%d", lp_upolynomial_sgn_at_integer(U[IDX(1)], &x)); mpz_clear(&x); k += 3;
    }
    else if (!strcmp(op, "sgq")) {
      lp_integer_t a, b; mpz_init_set_str(&a, vtok[k + 2], 10); mpz_init_set_str(&b, vtok[k + 3], 10);
      lp_rational_t x; lp_rational_construct_from_div(&x, &a, &b);
      printf("=%d", lp_upolynomial_sgn_at_rational(U[IDX(1)], &x));
      lp_rational_destruct(&x); mpz_clear(&a); mpz_clear(&b); k += 4;
    }
    else if (!strcmp(op, "sgd")) {
      lp_integer_t a; mpz_init_set_str(&a, vtok[k + 2], 10);
      lp_dyadic_rational_t x; lp_dyadic_rational_construct_from_integer(&x, &a);
      lp_dyadic_rational_div_2exp(&x, &x, strtoul(vtok[k + 3], NULL, 10));
      printf("=%d", lp_upolynomial_sgn_at_dyadic_rational(U[IDX(1)], &x));
      lp_dyadic_rational_destruct(&x); mpz_clear(&a); k += 4;
    }
    else if (!strcmp(op, "uobs")) {
      const lp_upolynomial_t* u = U[IDX(1)];
      const lp_integer_t* ct = lp_upolynomial_const_term(u);
      printf("=c"); if (ct) print_z(ct); else printf("none");
      printf(":l"); print_z(lp_upolynomial_lead_coeff(u));
      printf(":z%do%dm%d", lp_upolynomial_is_zero(u), lp_upolynomial_is_one(u), lp_upolynomial_is_monic(u));
      k += 2;
    }
    else if (!strcmp(op, "monic") || !strcmp(op, "monici")) {
      /* valid when the leading coefficient is invertible in K (Z: divides every coefficient) */
      const lp_upolynomial_t* u = U[IDX(op[5] ? 1 : 2)];
      int okk = 1;
      if (!lp_upolynomial_is_zero(u)) {
        const lp_integer_t* lc = lp_upolynomial_lead_coeff(u);
        if (K == lp_Z) { for (size_t i = 0; i < u->size; ++i) if (!mpz_divisible_p(&u->monomials[i].coefficient, lc)) okk = 0; }
        else { lp_integer_t g; mpz_init(&g); mpz_gcd(&g, lc, &K->M); if (mpz_cmp_ui(&g, 1) != 0) okk = 0; mpz_clear(&g); }
      }
      if (!okk) { printf("=skip"); k += op[5] ? 2 : 3; }
      else if (op[5]) { lp_upolynomial_make_monic_in_place(U[IDX(1)]); k += 2; }
      else { d = IDX(1); r = lp_upolynomial_make_monic(U[IDX(2)]); k += 3; }
    }
    else if (!strcmp(op, "negi")) { lp_upolynomial_neg_in_place(U[IDX(1)]); k += 2; }
    else if (!strcmp(op, "rev")) { lp_upolynomial_reverse_in_place(U[IDX(1)]); k += 2; }
    else if (!strcmp(op, "sxn")) { d = IDX(1); r = lp_upolynomial_subst_x_neg(U[IDX(2)]); k += 3; }
    else if (!strcmp(op, "sxp")) { lp_upolynomial_subst_x_pow_in_place(U[IDX(1)], (size_t) IDX(2)); k += 3; }
    else if (!strcmp(op, "cpow")) { d = IDX(1); r = lp_upolynomial_construct_power(K, (size_t) IDX(2), strtol(vtok[k + 3], NULL, 10)); k += 4; }
    else if (!strcmp(op, "cint") || !strcmp(op, "clong")) {
      const char* c = vtok[k + 2];
      size_t nn = 1; for (const char* q = c; *q; ++q) if (*q == ',') ++nn;
      int* ci = malloc(nn * sizeof(int)); long* cl = malloc(nn * sizeof(long));
      for (size_t i = 0; i < nn; ++i) { cl[i] = strtol(c, (char**)&c, 10); ci[i] = (int) cl[i]; if (*c == ',') ++c; }
      d = IDX(1);
      r = op[1] == 'i' ? lp_upolynomial_construct_from_int(K, nn - 1, ci) : lp_upolynomial_construct_from_long(K, nn - 1, cl);
      free(ci); free(cl); k += 3;
    }
    else if (!strcmp(op, "divdeg")) {
      /* valid when every stored degree is a multiple of a > 1 */
      const lp_upolynomial_t* u = U[IDX(2)]; size_t a = (size_t) IDX(3); int okk = a > 1;
      for (size_t i = 0; okk && i < u->size; ++i) if (u->monomials[i].degree % a) okk = 0;
      if (!okk) printf("=skip"); else { d = IDX(1); r = lp_upolynomial_div_degrees(u, a); }
      k += 4;
    }
    else if (!strcmp(op, "setring") || !strcmp(op, "copyk")) {
      /* setring: lp_upolynomial_set_ring on a copy, documented for a "larger" ring only (the generator obeys);
       * copyk: lp_upolynomial_construct_copy_K into any other ring (coefficients are re-normalised) */
      lp_int_ring_t* K2 = mkring(vtok[k + 2]);
      lp_upolynomial_t* cp;
      if (op[0] == 's') { cp = lp_upolynomial_construct_copy(U[IDX(1)]); lp_upolynomial_set_ring(cp, K2); }
      else cp = lp_upolynomial_construct_copy_K(K2, U[IDX(1)]);
      printf("=%d=", lp_upolynomial_ring(cp) == K2); u_print(cp);
      lp_upolynomial_delete(cp); rmring(K2); k += 3;
    }
    else { printf("UNKNOWN-OP %s", op); break; }
    if (r) { lp_upolynomial_delete(U[d]); U[d] = r; }
    for (int i = 0; i < n; ++i) { putchar(' '); u_print(U[i]); }
  }
  for (int i = 0; i < n; ++i) lp_upolynomial_delete(U[i]);
  rmring(K);
}

int main(void) {
  while (next_case()) {
    if (vntok == 0) { end_case(); continue; }
    if (is_op("mv")) run_mv();
    else if (is_op("uv")) run_uv();
    else printf("UNKNOWN-OP");
    end_case();
  }
  free(vline); free(pio_terms);
  return 0;
}
