/* C02 driver: division / pseudo-division / reduction / divisibility.
 *   multivariate over Z: the public lp_polynomial_* entry points and (for the four remaindering variants)
 *   the internal coefficient_reduce, on the data of public polynomials;
 *   univariate over Z and Z_M: lp_upolynomial_* and the internal upolynomial_dense_div_general.
 * Every operation with output operands is run with fresh / pre-used / aliased outputs; the results of the
 * fresh run are printed, followed by a MISMATCH note when another run differs (which then differs from the
 * model's line). */
#include "polyio.h"
#include <upolynomial.h>
#include "polynomial/polynomial.h"
#include "polynomial/coefficient.h"
#include "upolynomial/upolynomial_dense.h"

typedef lp_polynomial_t* PP;

/* ------------------------------------------------------------------ multivariate */
#define MAXOUT 3
typedef void (*mfun)(PP* out, const lp_polynomial_t* a, const lp_polynomial_t* b);
static int g_type;

static void f_reduce_pub(PP* o, const lp_polynomial_t* a, const lp_polynomial_t* b) { lp_polynomial_reduce(a, b, o[0], o[1], o[2]); }
static void f_reduce_int(PP* o, const lp_polynomial_t* a, const lp_polynomial_t* b) {
  /* the internal entry point expects operands (and outputs) laid out for the current order: bring external ones there
     through public calls first (VERIF_STALE=1 hands out external polynomials built under another order) */
  (void) lp_polynomial_top_variable(a); (void) lp_polynomial_top_variable(b);
  for (int i = 0; i < 3; ++i) (void) lp_polynomial_top_variable(o[i]);
  coefficient_reduce(pio_ctx, &a->data, &b->data, &o[0]->data, &o[1]->data, &o[2]->data, (remaindering_type_t) g_type);
  /* the internal entry point writes the coefficient data only; the cached hash belongs to the public wrapper, which this
     call bypasses, so it is invalidated here exactly as lp_polynomial_reduce does */
  for (int i = 0; i < 3; ++i) o[i]->hash = 0;
}
static void f_div(PP* o, const lp_polynomial_t* a, const lp_polynomial_t* b) { lp_polynomial_div(o[0], a, b); }
static void f_rem(PP* o, const lp_polynomial_t* a, const lp_polynomial_t* b) { lp_polynomial_rem(o[0], a, b); }
static void f_prem(PP* o, const lp_polynomial_t* a, const lp_polynomial_t* b) { lp_polynomial_prem(o[0], a, b); }
static void f_sprem(PP* o, const lp_polynomial_t* a, const lp_polynomial_t* b) { lp_polynomial_sprem(o[0], a, b); }
static void f_divrem(PP* o, const lp_polynomial_t* a, const lp_polynomial_t* b) { lp_polynomial_divrem(o[0], o[1], a, b); }
static void f_pdivrem(PP* o, const lp_polynomial_t* a, const lp_polynomial_t* b) { lp_polynomial_pdivrem(o[0], o[1], a, b); }
static void f_spdivrem(PP* o, const lp_polynomial_t* a, const lp_polynomial_t* b) { lp_polynomial_spdivrem(o[0], o[1], a, b); }

static unsigned hash_prior = 0;
/* runs f in all output situations; prints the nout results of the fresh run (blank separated) */
static void run_modes(mfun f, int nout, const char* A, const char* B, const char* U) {
  PP ref[MAXOUT];
  int bad_mode = -1, bad_out = -1;
  PP bad_val = NULL;
  /* modes: 0 fresh, 1 pre-used, 2 out[0] is the dividend, 3 out[nout-1] is the dividend (nout > 1) */
  for (int mode = 0; mode < 4; ++mode) {
    if (mode == 3 && nout == 1) continue;
    PP a = pio_new(A), b = pio_new(B);
    PP out[MAXOUT]; int owned[MAXOUT];
    for (int i = 0; i < nout; ++i) { out[i] = (mode == 1) ? pio_new(U) : lp_polynomial_new(pio_ctx); owned[i] = 1; }
    if (mode == 2) { lp_polynomial_delete(out[0]); out[0] = a; owned[0] = 0; }
    if (mode == 3) { lp_polynomial_delete(out[nout-1]); out[nout-1] = a; owned[nout-1] = 0; }
    /* a cached hash is part of the prior state of an output (lp_polynomial_hash caches, every writer must reset it):
       pre-used outputs always carry one, aliased dividends in every other case */
    if (mode == 1 || (mode >= 2 && (hash_prior++ & 1))) for (int i = 0; i < nout; ++i) (void) lp_polynomial_hash(out[i]);
    f(out, a, b);
    if (mode == 0) {
      for (int i = 0; i < nout; ++i) { ref[i] = out[i]; owned[i] = 0; }
    } else {
      for (int i = 0; i < nout; ++i) {
        if (bad_mode < 0 && (lp_polynomial_cmp(ref[i], out[i]) != 0 || !lp_polynomial_eq(ref[i], out[i]))) {
          bad_mode = mode; bad_out = i; bad_val = lp_polynomial_new_copy(out[i]);
        }
      }
    }
    for (int i = 0; i < nout; ++i) if (owned[i]) lp_polynomial_delete(out[i]);
    lp_polynomial_delete(a); lp_polynomial_delete(b);
  }
  for (int i = 0; i < nout; ++i) { if (i) putchar(' '); pio_print(ref[i]); lp_polynomial_delete(ref[i]); }
  if (bad_mode >= 0) { printf(" MISMATCH(mode=%d,out=%d)=", bad_mode, bad_out); pio_print(bad_val); lp_polynomial_delete(bad_val); }
}

/* ------------------------------------------------------------------ univariate */
static lp_int_ring_t* mkring(const char* m) {
  if (strcmp(m, "0") == 0) return lp_Z;
  lp_integer_t M; mpz_init_set_str(&M, m, 10);
  int pr = mpz_probab_prime_p(&M, 25) ? 1 : 0;
  lp_int_ring_t* K = lp_int_ring_create(&M, pr);
  mpz_clear(&M);
  return K;
}
static void rmring(lp_int_ring_t* K) { if (K) lp_int_ring_detach(K); }

/* "c0,c1,...,cn" low degree first */
static lp_upolynomial_t* uparse(lp_int_ring_t* K, const char* s) {
  size_t n = 1; for (const char* c = s; *c; ++c) if (*c == ',') ++n;
  lp_integer_t* cs = malloc(n * sizeof(lp_integer_t));
  char* dup = strdup(s); char* save = NULL; size_t i = 0;
  for (char* t = strtok_r(dup, ",", &save); t; t = strtok_r(NULL, ",", &save)) mpz_init_set_str(&cs[i++], t, 10);
  lp_upolynomial_t* p = lp_upolynomial_construct(K, n - 1, cs);
  for (i = 0; i < n; ++i) mpz_clear(&cs[i]);
  free(cs); free(dup);
  return p;
}
static void print_coeffs(const lp_integer_t* cs, size_t n) {
  /* canonical: no zero on the leading side, "0" for zero */
  while (n > 0 && mpz_sgn(&cs[n-1]) == 0) --n;
  if (n == 0) { putchar('0'); return; }
  for (size_t i = 0; i < n; ++i) { if (i) putchar(','); print_z(&cs[i]); }
}
static void uprint(const lp_upolynomial_t* p) {
  size_t d = lp_upolynomial_degree(p);
  lp_integer_t* cs = malloc((d + 1) * sizeof(lp_integer_t));
  for (size_t i = 0; i <= d; ++i) mpz_init(&cs[i]);
  lp_upolynomial_unpack(p, cs);
  print_coeffs(cs, d + 1);
  for (size_t i = 0; i <= d; ++i) mpz_clear(&cs[i]);
  free(cs);
}
static void dense_from(upolynomial_dense_t* d, size_t cap, const lp_upolynomial_t* p) { upolynomial_dense_construct_p(d, cap, p); }
static void dense_junk(upolynomial_dense_t* d, size_t cap) {
  upolynomial_dense_construct(d, cap);
  for (size_t i = 0; i < cap; ++i) mpz_set_si(&d->coefficients[i], (long) (7 * i + 3) * ((i & 1) ? -1 : 1));
  d->size = cap;
}

int main(void) {
  pio_init(lp_Z);
  while (next_case()) {
    if (vntok == 0) { end_case(); continue; }
    if (is_op("pseudo") && vntok == 4) {
      /* pseudo A B U : A not constant, B <> 0, main variable of B not above that of A */
      const char *A = vtok[1], *B = vtok[2], *U = vtok[3];
      run_modes(f_reduce_pub, 3, A, B, U); putchar(' ');
      run_modes(f_prem, 1, A, B, U); putchar(' ');
      run_modes(f_pdivrem, 2, A, B, U); putchar(' ');
      run_modes(f_sprem, 1, A, B, U); putchar(' ');
      run_modes(f_spdivrem, 2, A, B, U); putchar(' ');
      g_type = REMAINDERING_PSEUDO_DENSE; run_modes(f_reduce_int, 3, A, B, U); putchar(' ');
      g_type = REMAINDERING_PSEUDO_SPARSE; run_modes(f_reduce_int, 3, A, B, U); putchar(' ');
      g_type = REMAINDERING_LCM_SPARSE; run_modes(f_reduce_int, 3, A, B, U);
    } else if (is_op("cpseudo") && vntok == 4) {
      /* both constants: integer division */
      const char *A = vtok[1], *B = vtok[2], *U = vtok[3];
      run_modes(f_prem, 1, A, B, U); putchar(' ');
      run_modes(f_pdivrem, 2, A, B, U); putchar(' ');
      run_modes(f_sprem, 1, A, B, U); putchar(' ');
      run_modes(f_spdivrem, 2, A, B, U); putchar(' ');
      run_modes(f_rem, 1, A, B, U); putchar(' ');
      run_modes(f_divrem, 2, A, B, U);
    } else if (is_op("exact") && vntok == 4) {
      /* exact A B U : B divides A */
      const char *A = vtok[1], *B = vtok[2], *U = vtok[3];
      run_modes(f_div, 1, A, B, U); putchar(' ');
      /* rem / divrem document "main variable of A2 not above that of A1" (they assert it): 0 / B only through div */
      PP a = pio_new(A), b = pio_new(B);
      int below = lp_polynomial_cmp_type(a, b) < 0;
      lp_polynomial_delete(a); lp_polynomial_delete(b);
      if (below) { printf("- - -"); }
      else {
        run_modes(f_rem, 1, A, B, U); putchar(' ');
        run_modes(f_divrem, 2, A, B, U);
      }
    } else if (is_op("exactr") && vntok == 4) {
      /* exactr A B U : same main variable, A = Q0*B + R0 with deg R0 < deg B: division with remainder in Z[y][x] */
      const char *A = vtok[1], *B = vtok[2], *U = vtok[3];
      run_modes(f_rem, 1, A, B, U); putchar(' ');
      run_modes(f_divrem, 2, A, B, U); putchar(' ');
      g_type = REMAINDERING_EXACT_SPARSE; run_modes(f_reduce_int, 3, A, B, U);
    } else if (is_op("divides") && vntok == 3) {
      PP a = pio_new(vtok[1]), b = pio_new(vtok[2]);
      printf("%d", lp_polynomial_divides(a, b) ? 1 : 0);
      lp_polynomial_delete(a); lp_polynomial_delete(b);
    } else if (is_op("uexact") && vntok == 4) {
      /* uexact M p q : division with remainder possible exactly (always over a prime field) */
      lp_int_ring_t* K = mkring(vtok[1]);
      lp_upolynomial_t *p = uparse(K, vtok[2]), *q = uparse(K, vtok[3]);
      lp_upolynomial_t* d = lp_upolynomial_div_exact(p, q);
      lp_upolynomial_t* r = lp_upolynomial_rem_exact(p, q);
      lp_upolynomial_t *d2 = 0, *r2 = 0;
      lp_upolynomial_div_rem_exact(p, q, &d2, &r2);
      uprint(d); putchar(' '); uprint(r); putchar(' '); uprint(d2); putchar(' '); uprint(r2);
      lp_upolynomial_delete(d); lp_upolynomial_delete(r); lp_upolynomial_delete(d2); lp_upolynomial_delete(r2);
      lp_upolynomial_delete(p); lp_upolynomial_delete(q); rmring(K);
    } else if (is_op("upseudo") && vntok == 4) {
      lp_int_ring_t* K = mkring(vtok[1]);
      lp_upolynomial_t *p = uparse(K, vtok[2]), *q = uparse(K, vtok[3]);
      lp_upolynomial_t *d = 0, *r = 0;
      lp_upolynomial_div_pseudo(&d, &r, p, q);
      uprint(d); putchar(' '); uprint(r);
      lp_upolynomial_delete(d); lp_upolynomial_delete(r);
      lp_upolynomial_delete(p); lp_upolynomial_delete(q); rmring(K);
    } else if (is_op("udense") && vntok == 5) {
      /* udense M exact p q : upolynomial_dense_div_general with fresh and with pre-used buffers */
      lp_int_ring_t* K = mkring(vtok[1]);
      int exact = atoi(vtok[2]);
      lp_upolynomial_t *p = uparse(K, vtok[3]), *q = uparse(K, vtok[4]);
      size_t pd = lp_upolynomial_degree(p), qd = lp_upolynomial_degree(q);
      upolynomial_dense_t P, Q, d1, r1, d2, r2;
      dense_from(&P, pd + 1, p); dense_from(&Q, qd + 1, q);
      upolynomial_dense_construct(&d1, pd + 1); upolynomial_dense_construct(&r1, pd + 1);
      dense_junk(&d2, pd + 3); dense_junk(&r2, pd + 3);
      upolynomial_dense_div_general(K, exact, &P, &Q, &d1, &r1);
      upolynomial_dense_div_general(K, exact, &P, &Q, &d2, &r2);
      print_coeffs(d1.coefficients, d1.size); putchar(' '); print_coeffs(r1.coefficients, r1.size);
      int same = d1.size == d2.size && r1.size == r2.size;
      for (size_t i = 0; same && i < d1.size; ++i) same = mpz_cmp(&d1.coefficients[i], &d2.coefficients[i]) == 0;
      for (size_t i = 0; same && i < r1.size; ++i) same = mpz_cmp(&r1.coefficients[i], &r2.coefficients[i]) == 0;
      /* whatever lies above the used size must be zero (the next user of the buffer relies on it) */
      int clean = 1;
      for (size_t i = d2.size; i < d2.capacity; ++i) if (mpz_sgn(&d2.coefficients[i])) clean = 0;
      for (size_t i = r2.size; i < r2.capacity; ++i) if (mpz_sgn(&r2.coefficients[i])) clean = 0;
      if (!same) { printf(" MISMATCH(pre-used)="); print_coeffs(d2.coefficients, d2.size); putchar('/'); print_coeffs(r2.coefficients, r2.size); }
      if (!clean) printf(" DIRTY(pre-used)");
      upolynomial_dense_destruct(&P); upolynomial_dense_destruct(&Q);
      upolynomial_dense_destruct(&d1); upolynomial_dense_destruct(&r1);
      upolynomial_dense_destruct(&d2); upolynomial_dense_destruct(&r2);
      lp_upolynomial_delete(p); lp_upolynomial_delete(q); rmring(K);
    } else if (is_op("udivides") && vntok == 4) {
      lp_int_ring_t* K = mkring(vtok[1]);
      lp_upolynomial_t *p = uparse(K, vtok[2]), *q = uparse(K, vtok[3]);
      printf("%d", lp_upolynomial_divides(p, q) ? 1 : 0);
      lp_upolynomial_delete(p); lp_upolynomial_delete(q); rmring(K);
    } else if (is_op("udivc") && vntok == 4) {
      lp_int_ring_t* K = mkring(vtok[1]);
      lp_upolynomial_t* p = uparse(K, vtok[2]);
      lp_integer_t c; mpz_init_set_str(&c, vtok[3], 10);
      lp_upolynomial_t* d = lp_upolynomial_div_exact_c(p, &c);
      uprint(d);
      lp_upolynomial_delete(d); lp_upolynomial_delete(p); mpz_clear(&c); rmring(K);
    } else {
      printf("UNKNOWN");
    }
    end_case();
  }
  free(vline); free(pio_terms);
  pio_done();
  return 0;
}
