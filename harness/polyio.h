/* Shared polynomial text I/O of the /verif C drivers.
 *   polynomial := "0" | term ("+" term)*        (no blanks)
 *   term       := integer ("*x" index "^" exponent)*
 * e.g. 3*x0^2*x1^1+-2*x1^1+5 .  Printing is CANONICAL and independent of libpoly's variable order:
 * variables by increasing index inside a monomial, terms in DECREASING order of the model's `mono_cmp`
 * (lexicographic on (index, exponent) pairs; a proper prefix is smaller), zero terms never printed.
 * The drivers use a global context with variables x0..x(NV-1) (variable ids == indices). */
#pragma once
#include "common.h"
#include <polynomial.h>
#include <polynomial_context.h>
#include <variable_db.h>
#include <variable_order.h>
#include <monomial.h>
#include <integer.h>

#define PIO_NV 8
static lp_variable_db_t* pio_db;
static lp_variable_order_t* pio_order;
static lp_polynomial_context_t* pio_ctx;
static lp_variable_t pio_x[PIO_NV];

/* K == NULL (lp_Z) or a ring; the default order lists x0 < x1 < ... (x0 bottom). */
static void pio_init(lp_int_ring_t* K) {
  pio_db = lp_variable_db_new();
  pio_order = lp_variable_order_new();
  char name[16];
  for (int i = 0; i < PIO_NV; ++i) { snprintf(name, sizeof name, "x%d", i); pio_x[i] = lp_variable_db_new_variable(pio_db, name); }
  for (int i = 0; i < PIO_NV; ++i) lp_variable_order_push(pio_order, pio_x[i]);
  pio_ctx = lp_polynomial_context_new(K, pio_db, pio_order);
}
static void pio_done(void) {
  lp_polynomial_context_detach(pio_ctx);
  lp_variable_order_detach(pio_order);
  lp_variable_db_detach(pio_db);
}
/* set the order to the given permutation (bottom first); variables not listed stay unlisted */
static void pio_set_order(const int* perm, int n) {
  lp_variable_order_clear(pio_order);
  for (int i = 0; i < n; ++i) lp_variable_order_push(pio_order, pio_x[perm[i]]);
}
static int pio_var_index(lp_variable_t v) { for (int i = 0; i < PIO_NV; ++i) if (pio_x[i] == v) return i; return -1; }

/* parse into an already constructed polynomial of context ctx (the previous contents are overwritten) */
static void pio_parse_ctx(const lp_polynomial_context_t* ctx, lp_polynomial_t* p, const char* s) {
  lp_polynomial_t* acc = lp_polynomial_new(ctx);
  if (!(s[0] == '0' && s[1] == 0)) {
    const char* c = s;
    while (*c) {
      /* coefficient */
      const char* e = c; if (*e == '-') ++e; while (*e >= '0' && *e <= '9') ++e;
      char* num = strndup(c, (size_t)(e - c));
      lp_integer_t a; lp_integer_construct_from_string(lp_Z, &a, num, 10); free(num);
      lp_monomial_t m; lp_monomial_construct(ctx, &m); lp_monomial_set_coefficient(ctx, &m, &a);
      c = e;
      while (*c == '*') {
        c += 2; /* "*x" */
        int idx = (int) strtol(c, (char**)&c, 10);
        ++c; /* "^" */
        unsigned long ex = strtoul(c, (char**)&c, 10);
        if (ex > 0) lp_monomial_push(&m, pio_x[idx], (size_t) ex);
      }
      lp_polynomial_add_monomial(acc, &m);
      lp_monomial_destruct(&m); lp_integer_destruct(&a);
      if (*c == '+') ++c;
    }
  }
  lp_polynomial_swap(acc, p);
  lp_polynomial_delete(acc);
}
static void pio_parse(lp_polynomial_t* p, const char* s) { pio_parse_ctx(pio_ctx, p, s); }
/* VERIF_STALE=1: every operand built by pio_new is created under the REVERSED variable order, marked external and
 * handed out after the order has been restored - i.e. it is an external polynomial that is still laid out for a
 * previous order and that no API call has touched yet.  Every public operation has to re-order such operands itself
 * (lp_polynomial_external_clean); results must be identical to the normal run (checked by `check`, STALE_RERUN). */
static int pio_stale = -1;
static lp_polynomial_t* pio_new(const char* s) {
  if (pio_stale < 0) { const char* e = getenv("VERIF_STALE"); pio_stale = (e && e[0] == '1') ? 1 : 0; }
  if (pio_stale) lp_variable_order_reverse(pio_order);
  lp_polynomial_t* p = lp_polynomial_new(pio_ctx); pio_parse(p, s);
  if (pio_stale) { lp_polynomial_set_external(p); lp_variable_order_reverse(pio_order); }
  return p;
}

/* ---- canonical printing through lp_polynomial_traverse */
typedef struct { int nv; int var[PIO_NV]; unsigned long exp[PIO_NV]; char* coef; } pio_term_t;
static pio_term_t* pio_terms; static size_t pio_nterms, pio_cterms;

static void pio_collect(const lp_polynomial_context_t* ctx, lp_monomial_t* m, void* data) {
  (void) ctx; (void) data;
  if (pio_nterms == pio_cterms) { pio_cterms = pio_cterms ? 2 * pio_cterms : 64; pio_terms = realloc(pio_terms, pio_cterms * sizeof(pio_term_t)); }
  pio_term_t* t = &pio_terms[pio_nterms++];
  t->nv = 0;
  for (size_t i = 0; i < m->n; ++i) {
    if (m->p[i].d == 0) continue;
    int idx = pio_var_index(m->p[i].x);
    /* insertion by increasing index */
    int k = t->nv++;
    while (k > 0 && t->var[k-1] > idx) { t->var[k] = t->var[k-1]; t->exp[k] = t->exp[k-1]; --k; }
    t->var[k] = idx; t->exp[k] = m->p[i].d;
  }
  t->coef = mpz_get_str(NULL, 10, &m->a);
}
/* model order mono_cmp: returns <0, 0, >0 */
static int pio_mono_cmp(const pio_term_t* a, const pio_term_t* b) {
  int i = 0;
  for (;; ++i) {
    if (i == a->nv && i == b->nv) return 0;
    if (i == a->nv) return -1;
    if (i == b->nv) return 1;
    if (a->var[i] != b->var[i]) return a->var[i] < b->var[i] ? -1 : 1;
    if (a->exp[i] != b->exp[i]) return a->exp[i] < b->exp[i] ? -1 : 1;
  }
}
static int pio_term_cmp_desc(const void* a, const void* b) { return -pio_mono_cmp((const pio_term_t*) a, (const pio_term_t*) b); }

/* prints the canonical text of p; a zero coefficient or a repeated monomial in the traversal is printed as is
 * (it then differs from the model's canonical form, which is the point) */
static void pio_print(const lp_polynomial_t* p) {
  pio_nterms = 0;
  lp_polynomial_traverse(p, pio_collect, NULL);
  if (pio_nterms == 0) { printf("0"); return; }
  qsort(pio_terms, pio_nterms, sizeof(pio_term_t), pio_term_cmp_desc);
  for (size_t i = 0; i < pio_nterms; ++i) {
    if (i) putchar('+');
    fputs(pio_terms[i].coef, stdout);
    for (int k = 0; k < pio_terms[i].nv; ++k) printf("*x%d^%lu", pio_terms[i].var[k], pio_terms[i].exp[k]);
    free(pio_terms[i].coef);
  }
}
