/* C10 driver: sign and value of a polynomial under a total assignment.
 *
 *   ev <mode> <perm> <poly> <tok0> .. <tok(n-1)>
 *        perm = variable order, bottom first, as digits (e.g. 201: x2 < x0 < x1); n = strlen(perm);
 *        tok_i = valio.h value token of x_i (or `none`).  mode 0: sgn ... evaluate ; mode 1: evaluate first.
 *        prints  <sgn> <assignment_sgn> <6 bits: constraint_evaluate for LT LE EQ NE GT GE> <sgn again>
 *                <value (vio_print)> | <values of x_0..x_(n-1) AFTER the queries> | <poly after>
 *   er <perm> <poly> <tok0> ..     coefficient_evaluate_rationals (internal): prints <C_rat> <multiplier>
 *                                  (fresh / pre-used / aliased output must agree, else MISMATCH)
 *   rlb <c0,c1,..,cn>              coefficient_root_lower_bound (internal) on the univariate polynomial: prints k
 *   sc <cond 0..5> <sign>          lp_sign_condition_consistent
 *   va <perm> <poly> <tok0> ..     coefficient_value_approx (internal): prints the rational interval of every
 *                                  variable (lp_assignment_get_value_approx, which also refines) and then the
 *                                  interval computed for the polynomial:  an/ad:bn/bd:a_open:b_open:is_point
 */
#include "polyio.h"
#include "valio.h"
#include <assignment.h>
#include <sign_condition.h>
#include "polynomial/polynomial.h"
#include "polynomial/coefficient.h"
#include <rational_interval.h>
#include "number/rational.h"

unsigned coefficient_root_lower_bound(const coefficient_t* C);

static const lp_sign_condition_t conds[6] = { LP_SGN_LT_0, LP_SGN_LE_0, LP_SGN_EQ_0, LP_SGN_NE_0, LP_SGN_GT_0, LP_SGN_GE_0 };

/* sets the order from the digit string, returns n */
static int set_perm(const char* s) {
  int perm[PIO_NV]; int n = (int) strlen(s);
  for (int i = 0; i < n; ++i) perm[i] = s[i] - '0';
  pio_set_order(perm, n);
  return n;
}

/* n:<k>:<c0,..,cn>:<lo>:<hi>  the algebraic number a:<c0,..,cn>:<lo>:<hi>, whose defining polynomial is then replaced
 * by k*f (k a non-zero integer: negative leading coefficient and/or not primitive) with the sign caches adjusted -
 * a representation that lp_algebraic_number_construct itself refuses by assertion but that denotes the same number */
static int parse_scaled_alg(lp_value_t* v, const char* tok) {
  const char* e;
  long k = strtol(tok + 2, (char**)&e, 10);
  if (k == 0 || *e != ':') return 0;
  lp_upolynomial_t* f = vio_upoly(e + 1, &e);
  lp_dyadic_rational_t lo, hi; vio_dyadic(&lo, e + 1, &e); vio_dyadic(&hi, e + 1, &e);
  lp_dyadic_interval_t I; lp_dyadic_interval_construct(&I, &lo, 1, &hi, 1);
  lp_algebraic_number_t a; lp_algebraic_number_construct(&a, f, &I); /* takes ownership of f */
  if (a.f) {
    size_t deg = lp_upolynomial_degree(a.f);
    lp_integer_t* cs = malloc((deg + 1) * sizeof(lp_integer_t));
    for (size_t i = 0; i <= deg; ++i) lp_integer_construct(&cs[i]);
    lp_upolynomial_unpack(a.f, cs);
    for (size_t i = 0; i <= deg; ++i) mpz_mul_si(&cs[i], &cs[i], k);
    lp_upolynomial_t* g = lp_upolynomial_construct(lp_Z, deg, cs);
    for (size_t i = 0; i <= deg; ++i) lp_integer_destruct(&cs[i]);
    free(cs);
    lp_upolynomial_delete(a.f);
    a.f = g;
    if (k < 0) { a.sgn_at_a = -a.sgn_at_a; a.sgn_at_b = -a.sgn_at_b; }
  }
  lp_value_construct(v, LP_VALUE_ALGEBRAIC, &a);
  lp_algebraic_number_destruct(&a); lp_dyadic_interval_destruct(&I);
  lp_dyadic_rational_destruct(&lo); lp_dyadic_rational_destruct(&hi);
  return 1;
}

/* builds the assignment from tokens vtok[base..base+n-1]; returns 0 when a token cannot be built */
static int set_assignment(lp_assignment_t* m, int base, int n) {
  for (int i = 0; i < n; ++i) {
    if (base + i >= vntok) return 0;
    if (strcmp(vtok[base + i], "none") == 0) continue;
    lp_value_t v;
    if (vtok[base + i][0] == 'n') { if (!parse_scaled_alg(&v, vtok[base + i])) return 0; }
    else if (!vio_parse(&v, vtok[base + i])) return 0;
    lp_assignment_set_value(m, pio_x[i], &v);
    lp_value_destruct(&v);
  }
  return 1;
}

static void print_ri(const lp_rational_interval_t* I) {
  print_z(mpq_numref(&I->a)); putchar('/'); print_z(mpq_denref(&I->a)); putchar(':');
  if (I->is_point) printf("0/1"); else { print_z(mpq_numref(&I->b)); putchar('/'); print_z(mpq_denref(&I->b)); }
  printf(":%d:%d:%d", I->a_open ? 1 : 0, I->b_open ? 1 : 0, I->is_point ? 1 : 0);
}

static void print_coefficient(const coefficient_t* C) {
  lp_polynomial_t* P = lp_polynomial_new_from_coefficient(pio_ctx, C);
  pio_print(P);
  lp_polynomial_delete(P);
}

int main(void) {
  pio_init(lp_Z);
  while (next_case()) {
    if (vntok == 0) { end_case(); continue; }
    if (is_op("ev") && vntok >= 4) {
      int mode = atoi(vtok[1]);
      int n = set_perm(vtok[2]);
      lp_polynomial_t* p = pio_new(vtok[3]);
      lp_assignment_t* m = lp_assignment_new(pio_db);
      if (!set_assignment(m, 4, n)) { printf("badinput"); }
      else {
        lp_value_t* val = NULL;
        if (mode == 1) val = lp_polynomial_evaluate(p, m);
        int s1 = lp_polynomial_sgn(p, m);
        int s2 = lp_assignment_sgn(m, p);
        char bits[7];
        for (int c = 0; c < 6; ++c) bits[c] = lp_polynomial_constraint_evaluate(p, conds[c], m) ? '1' : '0';
        bits[6] = 0;
        if (mode != 1) val = lp_polynomial_evaluate(p, m);
        int s3 = lp_polynomial_sgn(p, m);
        printf("%d %d %s %d ", s1, s2, bits, s3);
        vio_print(val);
        lp_value_delete(val);
        printf(" |");
        for (int i = 0; i < n; ++i) { putchar(' '); vio_print(lp_assignment_get_value(m, pio_x[i])); }
        printf(" | ");
        pio_print(p);
      }
      lp_assignment_delete(m);
      lp_polynomial_delete(p);
    } else if (is_op("er") && vntok >= 3) {
      int n = set_perm(vtok[1]);
      lp_polynomial_t* p = pio_new(vtok[2]);
      lp_assignment_t* m = lp_assignment_new(pio_db);
      if (!set_assignment(m, 3, n)) { printf("badinput"); }
      else {
        lp_polynomial_sgn(p, m) /* brings p into the current order (external polynomial) */;
        coefficient_t r1, r2, r3; lp_integer_t m1, m2, m3;
        coefficient_construct(pio_ctx, &r1); integer_construct(&m1);
        coefficient_evaluate_rationals(pio_ctx, &p->data, m, &r1, &m1);
        /* pre-used output: x0^2 + 7, multiplier -5 */
        { lp_polynomial_t* junk = pio_new("1*x0^2+7"); coefficient_construct_copy(pio_ctx, &r2, &junk->data); lp_polynomial_delete(junk); }
        lp_integer_construct_from_int(lp_Z, &m2, -5);
        coefficient_evaluate_rationals(pio_ctx, &p->data, m, &r2, &m2);
        /* aliased output */
        coefficient_construct_copy(pio_ctx, &r3, &p->data); integer_construct(&m3);
        coefficient_evaluate_rationals(pio_ctx, &r3, m, &r3, &m3);
        if (coefficient_cmp(pio_ctx, &r1, &r2) == 0 && coefficient_cmp(pio_ctx, &r1, &r3) == 0
            && mpz_cmp(&m1, &m2) == 0 && mpz_cmp(&m1, &m3) == 0) {
          print_coefficient(&r1); putchar(' '); print_z(&m1);
        } else {
          printf("MISMATCH fresh="); print_coefficient(&r1); putchar('/'); print_z(&m1);
          printf(" used="); print_coefficient(&r2); putchar('/'); print_z(&m2);
          printf(" alias="); print_coefficient(&r3); putchar('/'); print_z(&m3);
        }
        coefficient_destruct(&r1); coefficient_destruct(&r2); coefficient_destruct(&r3);
        lp_integer_destruct(&m1); lp_integer_destruct(&m2); lp_integer_destruct(&m3);
      }
      lp_assignment_delete(m);
      lp_polynomial_delete(p);
    } else if (is_op("va") && vntok >= 3) {
      int n = set_perm(vtok[1]);
      lp_polynomial_t* p = pio_new(vtok[2]);
      lp_assignment_t* m = lp_assignment_new(pio_db);
      if (!set_assignment(m, 3, n)) { printf("badinput"); }
      else {
        lp_polynomial_sgn(p, m) /* brings p into the current order (external polynomial) */;
        for (int i = 0; i < n; ++i) {
          if (lp_assignment_get_value(m, pio_x[i])->type == LP_VALUE_NONE) { printf("none "); continue; }
          lp_rational_interval_t xi; lp_rational_interval_construct_zero(&xi);
          lp_assignment_get_value_approx(m, pio_x[i], &xi);
          print_ri(&xi); putchar(' ');
          lp_rational_interval_destruct(&xi);
        }
        printf("| ");
        /* pre-used output operand */
        lp_rational_interval_t v; lp_rational_t l, u;
        rational_construct_from_int(&l, -7, 3); rational_construct_from_int(&u, 5, 2);
        lp_rational_interval_construct(&v, &l, 1, &u, 0);
        coefficient_value_approx(pio_ctx, &p->data, m, &v);
        print_ri(&v);
        lp_rational_interval_destruct(&v); rational_destruct(&l); rational_destruct(&u);
      }
      lp_assignment_delete(m);
      lp_polynomial_delete(p);
    } else if (is_op("rlb") && vntok >= 2) {
      int perm[1] = { 0 }; pio_set_order(perm, 1);
      lp_upolynomial_t* f = vio_upoly(vtok[1], NULL);
      if (lp_upolynomial_degree(f) == 0) { printf("badinput"); }
      else {
        coefficient_t C;
        coefficient_construct_from_univariate(pio_ctx, &C, f, pio_x[0]);
        printf("%u", coefficient_root_lower_bound(&C));
        coefficient_destruct(&C);
      }
      lp_upolynomial_delete(f);
    } else if (is_op("sc") && vntok >= 3) {
      int c = atoi(vtok[1]); int s = atoi(vtok[2]);
      printf("%d", lp_sign_condition_consistent(conds[c], s) ? 1 : 0);
    } else {
      printf("UNKNOWN-OP");
    }
    end_case();
  }
  pio_done();
  free(vline); free(pio_terms);
  return 0;
}
