/* C19 driver: output-operand independence (fresh / pre-used of every kind / aliased) and
 * construct / attach / detach / destroy histories under ASan + UBSan + LSan.
 *
 *   pdst <op> <A> <B|n> <prior>     polynomial operation, result written into: a fresh object, an object holding
 *                                   <prior>, the object A itself, the object B itself -> four canonical texts
 *   vdst <op> <a> <b|n> <prior>     the same for lp_value_* operations (values as valio tokens); binary: also "self:" (out == a == b)
 *   sdst <d|q|z> <op> ...           binary operations of the scalar layer (dyadic / rational / integer), see sdst() below
 *   idst <op> <lo1> <o1> <hi1> <c1> <lo2> <o2> <hi2> <c2> <prior-kind>   lp_interval_add/mul/pow
 *   rc <history>                    reference-counting history (see gen/C19.py); ends with a recoverable leak check
 */
#include "polyio.h"
#include <variable_list.h>
#include "valio.h"
#include <interval.h>
#include <sanitizer/lsan_interface.h>

typedef void (*pbin)(lp_polynomial_t*, const lp_polynomial_t*, const lp_polynomial_t*);
typedef void (*pun)(lp_polynomial_t*, const lp_polynomial_t*);

static unsigned g_n; static lp_integer_t g_c;
static void w_shl(lp_polynomial_t* r, const lp_polynomial_t* a) { lp_polynomial_shl(r, a, g_n); }
static void w_pow(lp_polynomial_t* r, const lp_polynomial_t* a) { lp_polynomial_pow(r, a, g_n); }
static void w_mulint(lp_polynomial_t* r, const lp_polynomial_t* a) { lp_polynomial_mul_integer(r, a, &g_c); }
static void w_coeff(lp_polynomial_t* r, const lp_polynomial_t* a) { lp_polynomial_get_coefficient(r, a, g_n); }


/* A valid prior state of an output includes a cached hash: pre-used outputs are hashed before the call; afterwards the
 * output's hash and eq must agree with an equal polynomial rebuilt monomial by monomial (no cached hash). */
static void rebuild_cb(const lp_polynomial_context_t* ctx, lp_monomial_t* m, void* data) { (void) ctx; lp_polynomial_add_monomial((lp_polynomial_t*) data, m); }
static lp_polynomial_t* pio_new_h(const char* s) { lp_polynomial_t* p = pio_new(s); (void) lp_polynomial_hash(p); return p; }
static void hchk(const lp_polynomial_t* r) {
  lp_polynomial_t* f = lp_polynomial_new(pio_ctx);
  lp_polynomial_traverse(r, rebuild_cb, f);
  if (lp_polynomial_hash(r) != lp_polynomial_hash(f) || !lp_polynomial_eq(r, f) || !lp_polynomial_eq(f, r)) printf(" HASH-OR-EQ-STALE");
  lp_polynomial_delete(f);
}

static int pdst(void) {
  const char* op = vtok[1];
  pbin fb = NULL; pun fu = NULL; int acc = 0;
  if (!strcmp(op, "add")) fb = lp_polynomial_add; else if (!strcmp(op, "sub")) fb = lp_polynomial_sub;
  else if (!strcmp(op, "mul")) fb = lp_polynomial_mul; else if (!strcmp(op, "gcd")) fb = lp_polynomial_gcd;
  else if (!strcmp(op, "lcm")) fb = lp_polynomial_lcm; else if (!strcmp(op, "div")) fb = lp_polynomial_div;
  else if (!strcmp(op, "rem")) fb = lp_polynomial_rem; else if (!strcmp(op, "prem")) fb = lp_polynomial_prem;
  else if (!strcmp(op, "sprem")) fb = lp_polynomial_sprem; else if (!strcmp(op, "resultant")) fb = lp_polynomial_resultant;
  else if (!strcmp(op, "addmul")) { fb = lp_polynomial_add_mul; acc = 1; }
  else if (!strcmp(op, "submul")) { fb = lp_polynomial_sub_mul; acc = 1; }
  else if (!strcmp(op, "neg")) fu = lp_polynomial_neg; else if (!strcmp(op, "derivative")) fu = lp_polynomial_derivative;
  else if (!strcmp(op, "cont")) fu = lp_polynomial_cont; else if (!strcmp(op, "pp")) fu = lp_polynomial_pp;
  else if (!strcmp(op, "reductum")) fu = lp_polynomial_reductum; else if (!strcmp(op, "assign")) fu = lp_polynomial_assign;
  else if (!strcmp(op, "shl")) { fu = w_shl; g_n = (unsigned) atoi(vtok[3]); }
  else if (!strcmp(op, "pow")) { fu = w_pow; g_n = (unsigned) atoi(vtok[3]); }
  else if (!strcmp(op, "coeff")) { fu = w_coeff; g_n = (unsigned) atoi(vtok[3]); }
  else if (!strcmp(op, "mulint")) { fu = w_mulint; mpz_set_str(&g_c, vtok[3], 10); }
  else return 0;
  lp_polynomial_t* A = pio_new(vtok[2]);
  lp_polynomial_t* B = fb ? pio_new(vtok[3]) : NULL;
  if (acc) {
    /* fused multiply-add: the output is also an input; variants: accumulator = prior (twice, must agree),
       accumulator aliases A (S = A + A*B), accumulator aliases B */
    lp_polynomial_t* r1 = pio_new(vtok[4]); fb(r1, A, B); pio_print(r1); putchar(' ');
    lp_polynomial_t* r2 = pio_new_h(vtok[4]); fb(r2, A, B); pio_print(r2); hchk(r2); putchar(' ');
    lp_polynomial_t* r3 = pio_new_h(vtok[2]); fb(r3, r3, B); pio_print(r3); hchk(r3); putchar(' ');
    lp_polynomial_t* r4 = pio_new_h(vtok[3]); fb(r4, A, r4); pio_print(r4); hchk(r4);
    lp_polynomial_delete(r1); lp_polynomial_delete(r2); lp_polynomial_delete(r3); lp_polynomial_delete(r4);
  } else if (fb) {
    lp_polynomial_t* r1 = lp_polynomial_new(pio_ctx); fb(r1, A, B); pio_print(r1); putchar(' ');
    lp_polynomial_t* r2 = pio_new_h(vtok[4]); fb(r2, A, B); pio_print(r2); hchk(r2); putchar(' ');
    lp_polynomial_t* r3 = pio_new_h(vtok[2]); fb(r3, r3, B); pio_print(r3); hchk(r3); putchar(' ');
    lp_polynomial_t* r4 = pio_new_h(vtok[3]); fb(r4, A, r4); pio_print(r4); hchk(r4); putchar(' ');
    lp_polynomial_t* r5 = pio_new_h(vtok[2]); fb(r5, r5, r5); printf("self:"); pio_print(r5); hchk(r5);
    lp_polynomial_delete(r1); lp_polynomial_delete(r2); lp_polynomial_delete(r3); lp_polynomial_delete(r4); lp_polynomial_delete(r5);
  } else {
    lp_polynomial_t* r1 = lp_polynomial_new(pio_ctx); fu(r1, A); pio_print(r1); putchar(' ');
    lp_polynomial_t* r2 = pio_new_h(vtok[4]); fu(r2, A); pio_print(r2); hchk(r2); putchar(' ');
    lp_polynomial_t* r3 = pio_new_h(vtok[2]); fu(r3, r3); pio_print(r3); hchk(r3);
    lp_polynomial_delete(r1); lp_polynomial_delete(r2); lp_polynomial_delete(r3);
  }
  /* the inputs must be unchanged */
  printf(" in:"); pio_print(A); if (B) { putchar(' '); pio_print(B); }
  lp_polynomial_delete(A); if (B) lp_polynomial_delete(B);
  return 1;
}

typedef void (*pbin2)(lp_polynomial_t*, lp_polynomial_t*, const lp_polynomial_t*, const lp_polynomial_t*);
static void w_ppcont(lp_polynomial_t* pp, lp_polynomial_t* cont, const lp_polynomial_t* a, const lp_polynomial_t* unused) { (void) unused; lp_polynomial_pp_cont(pp, cont, a); }
/* pdst2 <op> <A> <B> <priorD> <priorR>: operations with two output operands */
static int pdst2(void) {
  const char* op = vtok[1];
  pbin2 f = NULL;
  if (!strcmp(op, "divrem")) f = lp_polynomial_divrem; else if (!strcmp(op, "pdivrem")) f = lp_polynomial_pdivrem;
  else if (!strcmp(op, "spdivrem")) f = lp_polynomial_spdivrem; else if (!strcmp(op, "ppcont")) f = w_ppcont;
  else return 0;
  lp_polynomial_t* A = pio_new(vtok[2]); lp_polynomial_t* B = pio_new(vtok[3]);
  { lp_polynomial_t* d = lp_polynomial_new(pio_ctx); lp_polynomial_t* r = lp_polynomial_new(pio_ctx);
    f(d, r, A, B); pio_print(d); putchar(','); pio_print(r); putchar(' '); lp_polynomial_delete(d); lp_polynomial_delete(r); }
  { lp_polynomial_t* d = pio_new_h(vtok[4]); lp_polynomial_t* r = pio_new_h(vtok[5]);
    f(d, r, A, B); pio_print(d); putchar(','); pio_print(r); hchk(d); hchk(r); putchar(' '); lp_polynomial_delete(d); lp_polynomial_delete(r); }
  { lp_polynomial_t* d = pio_new_h(vtok[5]); lp_polynomial_t* r = pio_new_h(vtok[4]);
    f(d, r, A, B); pio_print(d); putchar(','); pio_print(r); hchk(d); hchk(r); putchar(' '); lp_polynomial_delete(d); lp_polynomial_delete(r); }
  { lp_polynomial_t* d = pio_new_h(vtok[2]); lp_polynomial_t* r = pio_new_h(vtok[3]);   /* D is A, R is B */
    f(d, r, d, r); pio_print(d); putchar(','); pio_print(r); hchk(d); hchk(r); putchar(' '); lp_polynomial_delete(d); lp_polynomial_delete(r); }
  { lp_polynomial_t* d = pio_new_h(vtok[3]); lp_polynomial_t* r = pio_new_h(vtok[2]);   /* D is B, R is A */
    f(d, r, r, d); pio_print(d); putchar(','); pio_print(r); hchk(d); hchk(r); lp_polynomial_delete(d); lp_polynomial_delete(r); }
  printf(" in:"); pio_print(A); putchar(' '); pio_print(B);
  lp_polynomial_delete(A); lp_polynomial_delete(B);
  return 1;
}

typedef void (*vbin)(lp_value_t*, const lp_value_t*, const lp_value_t*);
static void wv_pow(lp_value_t* r, const lp_value_t* a) { lp_value_pow(r, a, g_n); }
static int vdst(void) {
  const char* op = vtok[1];
  vbin fb = NULL; void (*fu)(lp_value_t*, const lp_value_t*) = NULL;
  if (!strcmp(op, "add")) fb = lp_value_add; else if (!strcmp(op, "sub")) fb = lp_value_sub;
  else if (!strcmp(op, "mul")) fb = lp_value_mul; else if (!strcmp(op, "div")) fb = lp_value_div;
  else if (!strcmp(op, "neg")) fu = lp_value_neg; else if (!strcmp(op, "inv")) fu = lp_value_inv;
  else if (!strcmp(op, "assign")) fu = lp_value_assign;
  else if (!strcmp(op, "pow")) { fu = wv_pow; g_n = (unsigned) atoi(vtok[3]); }
  else return 0;
  lp_value_t a, b, r;
  if (!vio_parse(&a, vtok[2])) { printf("BADTOKEN"); return 1; }
  if (fb && !vio_parse(&b, vtok[3])) { lp_value_destruct(&a); printf("BADTOKEN"); return 1; }
  if (fb) {
    lp_value_construct_none(&r); fb(&r, &a, &b); vio_print(&r); lp_value_destruct(&r); putchar(' ');
    vio_parse(&r, vtok[4]); fb(&r, &a, &b); vio_print(&r); lp_value_destruct(&r); putchar(' ');
    lp_value_construct_copy(&r, &a); fb(&r, &r, &b); vio_print(&r); lp_value_destruct(&r); putchar(' ');
    lp_value_construct_copy(&r, &b); fb(&r, &a, &r); vio_print(&r); lp_value_destruct(&r);
    /* one object as output and both inputs (scalar kinds; x/x needs x != 0) */
    if (a.type != LP_VALUE_ALGEBRAIC && !(fb == lp_value_div && lp_value_sgn(&a) == 0)) {
      lp_value_construct_copy(&r, &a); fb(&r, &r, &r); printf(" self:"); vio_print(&r); lp_value_destruct(&r); }
  } else {
    lp_value_construct_none(&r); fu(&r, &a); vio_print(&r); lp_value_destruct(&r); putchar(' ');
    vio_parse(&r, vtok[4]); fu(&r, &a); vio_print(&r); lp_value_destruct(&r); putchar(' ');
    lp_value_construct_copy(&r, &a); fu(&r, &r); vio_print(&r); lp_value_destruct(&r);
  }
  lp_value_destruct(&a); if (fb) lp_value_destruct(&b);
  return 1;
}

static void pinterval(const lp_interval_t* I) {
  if (I->is_point) { printf("["); vio_print(&I->a); printf("]"); return; }
  putchar(I->a_open ? '(' : '['); vio_print(&I->a); putchar(','); vio_print(&I->b); putchar(I->b_open ? ')' : ']');
}
static void mkinterval(lp_interval_t* I, int base) {
  lp_value_t lo, hi; vio_parse(&lo, vtok[base]); vio_parse(&hi, vtok[base + 2]);
  if (lp_value_cmp(&lo, &hi) == 0) lp_interval_construct_point(I, &lo);
  else lp_interval_construct(I, &lo, atoi(vtok[base + 1]), &hi, atoi(vtok[base + 3]));
  lp_value_destruct(&lo); lp_value_destruct(&hi);
}
static void prior_interval(lp_interval_t* I, const char* kind) {
  lp_value_t x, y; lp_value_construct_int(&x, -3); lp_value_construct_int(&y, 7);
  if (!strcmp(kind, "point")) lp_interval_construct_point(I, &y);
  else if (!strcmp(kind, "full")) lp_interval_construct_full(I);
  else lp_interval_construct(I, &x, 1, &y, 0);
  lp_value_destruct(&x); lp_value_destruct(&y);
}
static int idst(void) {
  const char* op = vtok[1];
  lp_interval_t A, B, r;
  mkinterval(&A, 2); mkinterval(&B, 6);
  int isadd = !strcmp(op, "add"), ismul = !strcmp(op, "mul"), ispow = !strcmp(op, "pow");
  if (!strcmp(op, "assign")) {
    /* lp_interval_assign / construct_copy / swap into outputs of every shape; source A (then B) */
    const char* kinds[3] = {"point", "full", "proper"};
    for (int k = 0; k < 3; ++k) { prior_interval(&r, kinds[k]); lp_interval_assign(&r, &A); pinterval(&r); putchar(' ');
      lp_interval_assign(&r, &B); lp_interval_assign(&r, &r); lp_interval_assign(&r, &A); pinterval(&r); lp_interval_destruct(&r); putchar(' '); }
    lp_interval_construct_copy(&r, &A); pinterval(&r); lp_interval_destruct(&r);
    lp_interval_destruct(&A); lp_interval_destruct(&B); return 1;
  }
  if (!isadd && !ismul && !ispow) { lp_interval_destruct(&A); lp_interval_destruct(&B); return 0; }
  unsigned n = ispow ? (unsigned) atoi(vtok[11]) : 0;
#define IOP(R, X, Y) do { if (isadd) lp_interval_add(R, X, Y); else if (ismul) lp_interval_mul(R, X, Y); else lp_interval_pow(R, X, n); } while (0)
  lp_interval_construct_full(&r); IOP(&r, &A, &B); pinterval(&r); lp_interval_destruct(&r); putchar(' ');
  prior_interval(&r, vtok[10]); IOP(&r, &A, &B); pinterval(&r); lp_interval_destruct(&r); putchar(' ');
  lp_interval_construct_copy(&r, &A); IOP(&r, &r, &B); pinterval(&r); lp_interval_destruct(&r);
  if (!ispow) { putchar(' '); lp_interval_construct_copy(&r, &B); IOP(&r, &A, &r); pinterval(&r); lp_interval_destruct(&r); }
  lp_interval_destruct(&A); lp_interval_destruct(&B);
  return 1;
}

/* ---- reference counting histories.  Objects live in a table indexed in creation order (as in Refcount.v):
 *   nr <m>        new ring Z_m (m >= 2)         nd  new variable db          no  new variable order
 *   nc <k> <d> <o>  new context over objects k (ring index or -1 for Z), d, o
 *   a <i> / d <i>   attach / detach object i
 *   np <c> <text>   new polynomial in context c (holds it), dp <j> delete polynomial j
 * The generator only emits histories permitted by the model's contract and releases everything at the end. */
#define MAXOBJ 256
typedef struct { int kind; void* p; } obj_t;   /* 0 ring, 1 db, 2 order, 3 ctx */
static int rc(void) {
  obj_t objs[MAXOBJ]; int nobj = 0;
  lp_polynomial_t* polys[MAXOBJ]; int npoly = 0;
  for (int i = 1; i < vntok; ) {
    const char* t = vtok[i];
    if (!strcmp(t, "nr")) { lp_integer_t M; mpz_init_set_str(&M, vtok[i+1], 10); objs[nobj].kind = 0;
      objs[nobj++].p = lp_int_ring_create(&M, mpz_probab_prime_p(&M, 25) ? 1 : 0); mpz_clear(&M); i += 2; }
    else if (!strcmp(t, "nd")) { objs[nobj].kind = 1; lp_variable_db_t* db = lp_variable_db_new();
      lp_variable_db_new_variable(db, "u"); lp_variable_db_new_variable(db, "v"); objs[nobj++].p = db; i += 1; }
    else if (!strcmp(t, "no")) { objs[nobj].kind = 2; objs[nobj++].p = lp_variable_order_new(); i += 1; }
    else if (!strcmp(t, "nc")) { int k = atoi(vtok[i+1]), d = atoi(vtok[i+2]), o = atoi(vtok[i+3]);
      objs[nobj].kind = 3;
      objs[nobj++].p = lp_polynomial_context_new(k < 0 ? lp_Z : (lp_int_ring_t*) objs[k].p, (lp_variable_db_t*) objs[d].p, (lp_variable_order_t*) objs[o].p);
      i += 4; }
    else if (!strcmp(t, "a") || !strcmp(t, "d")) { int k = atoi(vtok[i+1]); int at = t[0] == 'a';
      switch (objs[k].kind) {
      case 0: if (at) lp_int_ring_attach((lp_int_ring_t*) objs[k].p); else lp_int_ring_detach((lp_int_ring_t*) objs[k].p); break;
      case 1: if (at) lp_variable_db_attach((lp_variable_db_t*) objs[k].p); else lp_variable_db_detach((lp_variable_db_t*) objs[k].p); break;
      case 2: if (at) lp_variable_order_attach((lp_variable_order_t*) objs[k].p); else lp_variable_order_detach((lp_variable_order_t*) objs[k].p); break;
      case 3: if (at) lp_polynomial_context_attach((lp_polynomial_context_t*) objs[k].p); else lp_polynomial_context_detach((lp_polynomial_context_t*) objs[k].p); break;
      }
      i += 2; }
    else if (!strcmp(t, "np")) { lp_polynomial_context_t* c = (lp_polynomial_context_t*) objs[atoi(vtok[i+1])].p;
      lp_polynomial_t* p = lp_polynomial_new(c);
      lp_polynomial_set_external(p);   /* only external polynomials hold a reference to their context */
      /* x0 + const in that context: variable 0 of its db */
      lp_integer_t one; lp_integer_construct_from_int(lp_Z, &one, 1);
      lp_polynomial_t* q = lp_polynomial_alloc(); lp_polynomial_construct_simple(q, c, &one, 0, 2);
      lp_polynomial_add(p, p, q); lp_polynomial_mul(p, p, q);
      lp_polynomial_destruct(q); free(q); lp_integer_destruct(&one);
      polys[npoly++] = p; i += 2; }
    else if (!strcmp(t, "up")) { int j = atoi(vtok[i+1]); lp_polynomial_t* pj = polys[j];
      lp_polynomial_t* tmp = lp_polynomial_new_copy(pj);
      lp_polynomial_add(pj, pj, tmp); lp_polynomial_mul(pj, tmp, pj); lp_polynomial_assign(pj, tmp); lp_polynomial_neg(pj, pj);
      lp_polynomial_delete(tmp); i += 2; }
    else if (!strcmp(t, "dp")) { int j = atoi(vtok[i+1]); lp_polynomial_delete(polys[j]); polys[j] = NULL; i += 2; }
    else return 0;
  }
  /* drop every pointer we hold, then ask LeakSanitizer */
  memset(objs, 0, sizeof objs); memset(polys, 0, sizeof polys);
  int leaks = __lsan_do_recoverable_leak_check();
  printf("live=%d", leaks ? 1 : 0);
  return 1;
}



/* isub <I (4 tokens)>: the value argument of collapse_to / set_a / set_b is a SUB-OBJECT of the output interval itself
 * (its own lower or upper end): the result must equal the call with a separate copy of that value. */
static int isub(void) {
  lp_interval_t A; mkinterval(&A, 1);
  if (A.is_point) { pinterval(&A); printf(" (point: nothing to alias)"); lp_interval_destruct(&A); return 1; }
  lp_interval_t r; lp_value_t c;
  /* collapse to the upper end (valid when the upper end is a finite value) */
  /* documented domain: the end must belong to the interval (closed end) */
  if (!A.b_open && A.b.type != LP_VALUE_PLUS_INFINITY && A.b.type != LP_VALUE_MINUS_INFINITY) {
    lp_interval_construct_copy(&r, &A); lp_value_construct_copy(&c, &r.b); lp_interval_collapse_to(&r, &c); printf("cb:"); pinterval(&r); lp_value_destruct(&c); lp_interval_destruct(&r);
    lp_interval_construct_copy(&r, &A); lp_interval_collapse_to(&r, &r.b); printf(" cb:"); pinterval(&r); lp_interval_destruct(&r);
    lp_interval_construct_copy(&r, &A); lp_value_construct_copy(&c, &r.b); lp_interval_set_a(&r, &c, 0); printf(" sa:"); pinterval(&r); lp_value_destruct(&c); lp_interval_destruct(&r);
    lp_interval_construct_copy(&r, &A); lp_interval_set_a(&r, &r.b, 0); printf(" sa:"); pinterval(&r); lp_interval_destruct(&r);
  }
  if (!A.a_open && A.a.type != LP_VALUE_PLUS_INFINITY && A.a.type != LP_VALUE_MINUS_INFINITY) {
    lp_interval_construct_copy(&r, &A); lp_value_construct_copy(&c, &r.a); lp_interval_collapse_to(&r, &c); printf(" ca:"); pinterval(&r); lp_value_destruct(&c); lp_interval_destruct(&r);
    lp_interval_construct_copy(&r, &A); lp_interval_collapse_to(&r, &r.a); printf(" ca:"); pinterval(&r); lp_interval_destruct(&r);
    lp_interval_construct_copy(&r, &A); lp_value_construct_copy(&c, &r.a); lp_interval_set_b(&r, &c, 0); printf(" sb:"); pinterval(&r); lp_value_destruct(&c); lp_interval_destruct(&r);
    lp_interval_construct_copy(&r, &A); lp_interval_set_b(&r, &r.a, 0); printf(" sb:"); pinterval(&r); lp_interval_destruct(&r);
  }
  lp_interval_destruct(&A);
  return 1;
}

/* vlist <nvars> <id> <id> ...: variable lists and orders over a LARGE database: ids far above the number of pushed
 * variables (index maps must grow to cover the id).  Prints index/contains of every id (and of two ids not pushed), the
 * order comparison of the first two, then pops everything. */
static int vlist(void) {
  int nv = atoi(vtok[1]); int n = vntok - 2;
  lp_variable_db_t* db = lp_variable_db_new();
  lp_variable_t* x = malloc(sizeof(lp_variable_t) * (size_t) (nv + 1));
  char nm[32];
  for (int i = 0; i < nv; ++i) { snprintf(nm, sizeof nm, "v%d", i); x[i] = lp_variable_db_new_variable(db, nm); }
  lp_variable_list_t L; lp_variable_list_construct(&L);
  lp_variable_order_t* ord = lp_variable_order_new();
  for (int i = 0; i < n; ++i) { int id = atoi(vtok[2 + i]); if (id < 0 || id >= nv) continue;
    if (lp_variable_list_index(&L, x[id]) < 0) lp_variable_list_push(&L, x[id]);
    if (!lp_variable_order_contains(ord, x[id])) lp_variable_order_push(ord, x[id]); }
  for (int i = 0; i < n; ++i) { int id = atoi(vtok[2 + i]); if (id < 0 || id >= nv) continue;
    printf("%d:%d:%d ", id, lp_variable_list_index(&L, x[id]), lp_variable_order_contains(ord, x[id]) ? 1 : 0); }
  printf("| %d:%d %d:%d", 0, lp_variable_order_contains(ord, x[0]) ? 1 : 0, nv - 1, lp_variable_order_contains(ord, x[nv - 1]) ? 1 : 0);
  if (n >= 2) { int a = atoi(vtok[2]), b = atoi(vtok[3]);
    if (a >= 0 && a < nv && b >= 0 && b < nv) { int c = lp_variable_order_cmp(ord, x[a], x[b]); printf(" cmp:%d", c < 0 ? -1 : (c > 0 ? 1 : 0)); } }
  printf(" size:%zu", lp_variable_list_size(&L));
  lp_variable_list_destruct(&L); lp_variable_order_detach(ord); lp_variable_db_detach(db); free(x);
  return 1;
}

/* ---- sdst: binary operations of the SCALAR layer (integer.h / rational.h / dyadic_rational.h through the public lp_* API),
 * the result written into: a fresh object, an object holding <u>, the object a itself (out == a), the object b itself
 * (out == b), and one object that is output and both inputs (out == a == b, value a) -> "r1 r2 r3 r4 self:r5 in:a b".
 *   sdst d <op> <a> <an> <b> <bn> <u> <un>      add sub mul            (a/2^an, normalised)
 *   sdst q <op> <n1> <d1> <n2> <d2> <un> <ud>   add sub mul div        (canonical)
 *   sdst z <op> <M> <a> <b> <u>                 add sub mul divexact (ring M, 0 = Z), divZ remZ gcd lcm (Z),
 *                                               addmul submul: accumulator = u, = a, = b, = a = b -> "r1 r2 r3 self:r4 in:a b" */
typedef void (*dbin)(lp_dyadic_rational_t*, const lp_dyadic_rational_t*, const lp_dyadic_rational_t*);
typedef void (*qbin)(lp_rational_t*, const lp_rational_t*, const lp_rational_t*);
typedef void (*zbin)(const lp_int_ring_t*, lp_integer_t*, const lp_integer_t*, const lp_integer_t*);
static void sd_setdy(lp_dyadic_rational_t* d, const char* a, const char* n) {
  lp_dyadic_rational_construct(d); mpz_set_str(&d->a, a, 10); d->n = strtoul(n, NULL, 10);
}
static void sd_setq(lp_rational_t* q, const char* a, const char* b) {
  lp_integer_t n, d; mpz_init_set_str(&n, a, 10); mpz_init_set_str(&d, b, 10);
  lp_rational_construct_from_div(q, &n, &d); mpz_clear(&n); mpz_clear(&d);
}
static void sd_pq(const lp_rational_t* q) { print_z(mpq_numref(q)); putchar('/'); print_z(mpq_denref(q)); }
static void wz_divZ(const lp_int_ring_t* K, lp_integer_t* r, const lp_integer_t* a, const lp_integer_t* b) { (void) K; lp_integer_div_Z(r, a, b); }
static void wz_remZ(const lp_int_ring_t* K, lp_integer_t* r, const lp_integer_t* a, const lp_integer_t* b) { (void) K; lp_integer_rem_Z(r, a, b); }
static void wz_gcd(const lp_int_ring_t* K, lp_integer_t* r, const lp_integer_t* a, const lp_integer_t* b) { (void) K; lp_integer_gcd_Z(r, a, b); }
static void wz_lcm(const lp_int_ring_t* K, lp_integer_t* r, const lp_integer_t* a, const lp_integer_t* b) { (void) K; lp_integer_lcm_Z(r, a, b); }
static int sdst(void) {
  if (vntok < 3) return 0;
  const char* kind = vtok[1]; const char* op = vtok[2];
  if (!strcmp(kind, "d") && vntok == 9) {
    dbin f = !strcmp(op, "add") ? lp_dyadic_rational_add : !strcmp(op, "sub") ? lp_dyadic_rational_sub
           : !strcmp(op, "mul") ? lp_dyadic_rational_mul : NULL;
    if (!f) return 0;
    lp_dyadic_rational_t a, b, r;
    sd_setdy(&a, vtok[3], vtok[4]); sd_setdy(&b, vtok[5], vtok[6]);
    lp_dyadic_rational_construct(&r); f(&r, &a, &b); vio_print_dy(&r); lp_dyadic_rational_destruct(&r); putchar(' ');
    sd_setdy(&r, vtok[7], vtok[8]); f(&r, &a, &b); vio_print_dy(&r); lp_dyadic_rational_destruct(&r); putchar(' ');
    lp_dyadic_rational_construct_copy(&r, &a); f(&r, &r, &b); vio_print_dy(&r); lp_dyadic_rational_destruct(&r); putchar(' ');
    lp_dyadic_rational_construct_copy(&r, &b); f(&r, &a, &r); vio_print_dy(&r); lp_dyadic_rational_destruct(&r); putchar(' ');
    lp_dyadic_rational_construct_copy(&r, &a); f(&r, &r, &r); printf("self:"); vio_print_dy(&r); lp_dyadic_rational_destruct(&r);
    printf(" in:"); vio_print_dy(&a); putchar(' '); vio_print_dy(&b);
    lp_dyadic_rational_destruct(&a); lp_dyadic_rational_destruct(&b);
    return 1;
  }
  if (!strcmp(kind, "q") && vntok == 9) {
    qbin f = !strcmp(op, "add") ? lp_rational_add : !strcmp(op, "sub") ? lp_rational_sub
           : !strcmp(op, "mul") ? lp_rational_mul : !strcmp(op, "div") ? lp_rational_div : NULL;
    if (!f) return 0;
    lp_rational_t a, b, r;
    sd_setq(&a, vtok[3], vtok[4]); sd_setq(&b, vtok[5], vtok[6]);
    if (f == lp_rational_div && mpq_sgn(&b) == 0) { printf("none"); lp_rational_destruct(&a); lp_rational_destruct(&b); return 1; }
    lp_rational_construct(&r); f(&r, &a, &b); sd_pq(&r); lp_rational_destruct(&r); putchar(' ');
    sd_setq(&r, vtok[7], vtok[8]); f(&r, &a, &b); sd_pq(&r); lp_rational_destruct(&r); putchar(' ');
    lp_rational_construct_copy(&r, &a); f(&r, &r, &b); sd_pq(&r); lp_rational_destruct(&r); putchar(' ');
    lp_rational_construct_copy(&r, &b); f(&r, &a, &r); sd_pq(&r); lp_rational_destruct(&r); putchar(' ');
    printf("self:");
    if (f == lp_rational_div && mpq_sgn(&a) == 0) printf("none");
    else { lp_rational_construct_copy(&r, &a); f(&r, &r, &r); sd_pq(&r); lp_rational_destruct(&r); }
    printf(" in:"); sd_pq(&a); putchar(' '); sd_pq(&b);
    lp_rational_destruct(&a); lp_rational_destruct(&b);
    return 1;
  }
  if (!strcmp(kind, "z") && vntok == 7) {
    int acc = 0, div = 0;
    zbin f = NULL;
    if (!strcmp(op, "add")) f = lp_integer_add; else if (!strcmp(op, "sub")) f = lp_integer_sub;
    else if (!strcmp(op, "mul")) f = lp_integer_mul; else if (!strcmp(op, "divexact")) { f = lp_integer_div_exact; div = 1; }
    else if (!strcmp(op, "divZ")) { f = wz_divZ; div = 1; } else if (!strcmp(op, "remZ")) { f = wz_remZ; div = 1; }
    else if (!strcmp(op, "gcd")) f = wz_gcd; else if (!strcmp(op, "lcm")) f = wz_lcm;
    else if (!strcmp(op, "addmul")) { f = lp_integer_add_mul; acc = 1; } else if (!strcmp(op, "submul")) { f = lp_integer_sub_mul; acc = 1; }
    else return 0;
    lp_int_ring_t* K = lp_Z;
    if (strcmp(vtok[3], "0") != 0) { lp_integer_t M; mpz_init_set_str(&M, vtok[3], 10);
      K = lp_int_ring_create(&M, mpz_probab_prime_p(&M, 25) ? 1 : 0); mpz_clear(&M); }
    lp_integer_t a, b, r;
    mpz_init_set_str(&a, vtok[4], 10); mpz_init_set_str(&b, vtok[5], 10);
    if (acc) {
      mpz_init_set_str(&r, vtok[6], 10); f(K, &r, &a, &b); print_z(&r); mpz_clear(&r); putchar(' ');
      mpz_init_set(&r, &a); f(K, &r, &r, &b); print_z(&r); mpz_clear(&r); putchar(' ');
      mpz_init_set(&r, &b); f(K, &r, &a, &r); print_z(&r); mpz_clear(&r); putchar(' ');
      mpz_init_set(&r, &a); f(K, &r, &r, &r); printf("self:"); print_z(&r); mpz_clear(&r);
    } else if (div && mpz_sgn(&b) == 0) printf("none");
    else {
      lp_integer_construct(&r); f(K, &r, &a, &b); print_z(&r); mpz_clear(&r); putchar(' ');
      mpz_init_set_str(&r, vtok[6], 10); f(K, &r, &a, &b); print_z(&r); mpz_clear(&r); putchar(' ');
      mpz_init_set(&r, &a); f(K, &r, &r, &b); print_z(&r); mpz_clear(&r); putchar(' ');
      mpz_init_set(&r, &b); f(K, &r, &a, &r); print_z(&r); mpz_clear(&r); putchar(' ');
      printf("self:");
      if (div && mpz_sgn(&a) == 0) printf("none");
      else { mpz_init_set(&r, &a); f(K, &r, &r, &r); print_z(&r); mpz_clear(&r); }
    }
    printf(" in:"); print_z(&a); putchar(' '); print_z(&b);
    mpz_clear(&a); mpz_clear(&b);
    if (K != lp_Z) lp_int_ring_detach(K);
    return 1;
  }
  return 0;
}

int main(void) {
  mpz_init(&g_c);
  pio_init(lp_Z);
  while (next_case()) {
    int ok = 0;
    if (vntok == 0) { end_case(); continue; }
    if (is_op("pdst")) ok = pdst();
    else if (is_op("pdst2")) ok = pdst2();
    else if (is_op("vdst")) ok = vdst();
    else if (is_op("idst")) ok = idst();
    else if (is_op("rc")) ok = rc();
    else if (is_op("vlist")) ok = vlist();
    else if (is_op("isub")) ok = isub();
    else if (is_op("sdst")) ok = sdst();
    if (!ok) printf("UNKNOWN-OP");
    end_case();
  }
  pio_done(); free(pio_terms); free(vline); mpz_clear(&g_c);
  return 0;
}
