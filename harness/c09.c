/* C09 driver: "querying a number never changes the number".
 *
 * case :=  c09 <mode> <v0> ... <v5> <p0> <p1> <p2> ; <op> <op> ...
 *   mode   O = the battery reads the ORIGINAL slots after every step, C = it reads fresh COPIES of the slots,
 *          M = originals on every third step, copies otherwise
 *   v_i    valio.h value tokens (the starting pool); the pool lives INSIDE an lp_assignment_t: slot i is the
 *          value of variable x_i, and every query goes through the const lp_value_t* the assignment hands out
 *   p_k    polyio.h polynomials over x0..x5 (assigned) and possibly x6 (never assigned; root isolation only)
 *   op     cmp:i:j  cz:i:<int>  cq:i:<n>/<d>  cd:i:<a>/<k>  sg:i  fl:i  ce:i  ii:i  ra:i  db:i  rf:i:<k>  ha:i:<prec>  mi:i
 *          add:d:i:j  sub:d:i:j  mul:d:i:j  div:d:i:j  neg:d:i  inv:d:i  cp:d:i  rc:i  ps:k  pe:k  pr:k
 *
 * output (one line):  init | <rep0..rep5> | <floor, ceiling, hash_approx(0), hash_approx(6) of 6 UNTOUCHED copies of the starting pool>
 *                     for every step   # <obs...> | <rep0..rep5> | <battery: 45 tokens> | <rep0..rep5>
 *                     $ <floor, ceiling of the untouched copies again>      (they are never used in between)
 *   obs      cmp/cz/cq/cd/sg: sign; fl/ce: integer; ii: 0/1; ra: lp_value_is_rational 0/1, then lp_value_get_rational
 *            as n/d (or - when not rational), then lp_algebraic_number_to_rational as n/d (or - when not algebraic); db: the double as an exact rational q:n/d; rf: -;
 *            ha: the size_t; mi: d:a/k or -; add/sub/mul/neg/cp/rc: -; ps: sign; pe: value token;
 *            pr: <n> followed by n value tokens
 *   rep      raw representation of the slot (struct fields f, I, sgn_at_a, sgn_at_b) printed by vio_print
 *   battery  for i<6: sgn ; for i<6: floor ; for i<j<6: cmp(i,j) ; for i<6, q in {-7/5, 1/3, 3/2}: cmp(i,q)
 */
#include "valio.h"
#include "polyio.h"
#include <assignment.h>
#include <math.h>
#include <unistd.h>
#include <signal.h>
#include <sys/wait.h>
#include <sanitizer/lsan_interface.h>

#define NS 6
#define NP 3
static lp_assignment_t* M;
static lp_polynomial_t* P[NP];

static lp_value_t U[NS];   /* copies of the starting pool made before the first query and never queried in between */
static void print_untouched(void) {
  for (int i = 0; i < NS; ++i) {
    lp_integer_t z; lp_integer_construct(&z);
    lp_value_floor(&U[i], &z); putchar(' '); print_z(&z);
    lp_value_ceiling(&U[i], &z); putchar(' '); print_z(&z);
    lp_integer_destruct(&z);
    /* hashes of the untouched copy (hash_approx works on the const value; floor / ceiling do not refine) */
    printf(" %zu %zu", lp_value_hash_approx(&U[i], 0), lp_value_hash_approx(&U[i], 6));
  }
}
static const lp_value_t* S(int i) { return lp_assignment_get_value(M, pio_x[i]); }

/* raw representation; the structural invariants valio.h's printer takes for granted are checked first */
static int bad_rep = 0;   /* a structurally corrupt value was printed: the history stops (the library would only crash) */
static void print_rep(const lp_value_t* v) {
  if (v->type == LP_VALUE_ALGEBRAIC) {
    const lp_algebraic_number_t* a = &v->value.a;
    if (a->f && a->I.is_point) { bad_rep = 1; printf("BAD:polynomial-with-point-interval:"); vio_print_upoly(a->f); putchar(':'); vio_print_dy(&a->I.a); return; }
    if (!a->f && !a->I.is_point) { bad_rep = 1; printf("BAD:interval-without-polynomial:"); vio_print_dy(&a->I.a); return; }
    if (a->f && !(a->I.a_open && a->I.b_open)) { bad_rep = 1; printf("BAD:closed-end-on-isolating-interval"); return; }
    if (!a->f && (a->I.a_open || a->I.b_open)) { bad_rep = 1; printf("BAD:open-point"); return; }
    if (!a->f && (a->sgn_at_a || a->sgn_at_b)) { bad_rep = 1; printf("BAD:point-with-sign-cache:%d:%d", a->sgn_at_a, a->sgn_at_b); return; }
  }
  vio_print(v);
}
static void print_reps(void) { for (int i = 0; i < NS; ++i) { putchar(' '); print_rep(S(i)); } }

static void set_slot(int d, const lp_value_t* v) { lp_assignment_set_value(M, pio_x[d], v); }

static void mkq(lp_rational_t* q, const char* s) {
  const char* sl = strchr(s, '/'); char* num = strndup(s, (size_t)(sl - s));
  lp_integer_t n, d; lp_integer_construct_from_string(lp_Z, &n, num, 10); lp_integer_construct_from_string(lp_Z, &d, sl + 1, 10); free(num);
  lp_rational_construct_from_div(q, &n, &d); lp_integer_destruct(&n); lp_integer_destruct(&d);
}

static const char* BATQ[3] = { "-7/5", "1/3", "3/2" };

static void battery(int on_copies) {
  lp_value_t cp[NS]; const lp_value_t* v[NS];
  for (int i = 0; i < NS; ++i) {
    if (on_copies) { lp_value_construct_copy(&cp[i], S(i)); v[i] = &cp[i]; } else v[i] = S(i);
  }
  for (int i = 0; i < NS; ++i) printf(" %d", sgn_of(lp_value_sgn(v[i])));
  for (int i = 0; i < NS; ++i) { lp_integer_t f; lp_integer_construct(&f); lp_value_floor(v[i], &f); putchar(' '); print_z(&f); lp_integer_destruct(&f); }
  for (int i = 0; i < NS; ++i) for (int j = i + 1; j < NS; ++j) printf(" %d", sgn_of(lp_value_cmp(v[i], v[j])));
  for (int i = 0; i < NS; ++i) for (int k = 0; k < 3; ++k) {
    lp_rational_t q; mkq(&q, BATQ[k]); printf(" %d", sgn_of(lp_value_cmp_rational(v[i], &q))); lp_rational_destruct(&q);
  }
  if (on_copies) for (int i = 0; i < NS; ++i) lp_value_destruct(&cp[i]);
}

/* split "a:b:c" in place */
static int fields(char* s, char** f, int max) {
  int n = 0; f[n++] = s;
  for (char* c = s; *c && n < max; ++c) if (*c == ':') { *c = 0; f[n++] = c + 1; }
  return n;
}

static void do_op(char* tok) {
  char* f[6]; int nf = fields(tok, f, 6); const char* op = f[0];
  int i = nf > 1 ? atoi(f[1]) : 0;
  putchar(' ');
  if (strcmp(op, "cmp") == 0) { printf("%d", sgn_of(lp_value_cmp(S(i), S(atoi(f[2]))))); return; }
  if (strcmp(op, "cz") == 0) {
    lp_integer_t z; lp_integer_construct_from_string(lp_Z, &z, f[2], 10);
    if (S(i)->type == LP_VALUE_ALGEBRAIC) printf("%d", sgn_of(lp_algebraic_number_cmp_integer(&S(i)->value.a, &z)));
    else { lp_value_t w; lp_value_construct(&w, LP_VALUE_INTEGER, &z); printf("%d", sgn_of(lp_value_cmp(S(i), &w))); lp_value_destruct(&w); }
    lp_integer_destruct(&z); return;
  }
  if (strcmp(op, "cq") == 0) { lp_rational_t q; mkq(&q, f[2]); printf("%d", sgn_of(lp_value_cmp_rational(S(i), &q))); lp_rational_destruct(&q); return; }
  if (strcmp(op, "cd") == 0) {
    lp_dyadic_rational_t d; vio_dyadic(&d, f[2], NULL);
    if (S(i)->type == LP_VALUE_ALGEBRAIC) printf("%d", sgn_of(lp_algebraic_number_cmp_dyadic_rational(&S(i)->value.a, &d)));
    else { lp_value_t w; lp_value_construct(&w, LP_VALUE_DYADIC_RATIONAL, &d); printf("%d", sgn_of(lp_value_cmp(S(i), &w))); lp_value_destruct(&w); }
    lp_dyadic_rational_destruct(&d); return;
  }
  if (strcmp(op, "sg") == 0) { printf("%d", sgn_of(lp_value_sgn(S(i)))); return; }
  if (strcmp(op, "fl") == 0 || strcmp(op, "ce") == 0) {
    lp_integer_t z; lp_integer_construct(&z);
    if (op[0] == 'f') lp_value_floor(S(i), &z); else lp_value_ceiling(S(i), &z);
    print_z(&z); lp_integer_destruct(&z); return;
  }
  if (strcmp(op, "ii") == 0) { printf("%d", lp_value_is_integer(S(i)) ? 1 : 0); return; }
  if (strcmp(op, "ra") == 0) {
    int r = lp_value_is_rational(S(i)) ? 1 : 0;
    printf("%d ", r);
    lp_rational_t q; lp_rational_construct(&q);
    if (r) { lp_value_get_rational(S(i), &q); print_z(mpq_numref(&q)); putchar('/'); print_z(mpq_denref(&q)); } else putchar('-');
    putchar(' ');
    if (S(i)->type == LP_VALUE_ALGEBRAIC) {
      lp_algebraic_number_to_rational(&S(i)->value.a, &q); print_z(mpq_numref(&q)); putchar('/'); print_z(mpq_denref(&q));
    } else putchar('-');
    lp_rational_destruct(&q); return;
  }
  if (strcmp(op, "db") == 0) {
    double x = lp_value_to_double(S(i));
    if (!isfinite(x)) { printf("BAD:non-finite-double"); return; }
    mpq_t q; mpq_init(q); mpq_set_d(q, x); printf("q:"); print_z(mpq_numref(q)); putchar('/'); print_z(mpq_denref(q)); mpq_clear(q); return;
  }
  if (strcmp(op, "rf") == 0) {
    int k = atoi(f[2]);
    if (S(i)->type == LP_VALUE_ALGEBRAIC) for (int t = 0; t < k; ++t) lp_algebraic_number_refine_const(&S(i)->value.a);
    putchar('-'); return;
  }
  if (strcmp(op, "ha") == 0) { printf("%zu", lp_value_hash_approx(S(i), (unsigned) atoi(f[2]))); return; }
  if (strcmp(op, "mi") == 0) {
    if (S(i)->type == LP_VALUE_ALGEBRAIC) {
      lp_dyadic_rational_t d; lp_dyadic_rational_construct(&d);
      lp_algebraic_number_get_dyadic_midpoint(&S(i)->value.a, &d); printf("d:"); vio_print_dy(&d); lp_dyadic_rational_destruct(&d);
    } else putchar('-');
    return;
  }
  if (strcmp(op, "add") == 0 || strcmp(op, "sub") == 0 || strcmp(op, "mul") == 0 || strcmp(op, "div") == 0) {
    int a = atoi(f[2]), b = atoi(f[3]); lp_value_t r; lp_value_construct_none(&r);
    if (op[0] == 'a') lp_value_add(&r, S(a), S(b)); else if (op[0] == 's') lp_value_sub(&r, S(a), S(b));
    else if (op[0] == 'm') lp_value_mul(&r, S(a), S(b)); else lp_value_div(&r, S(a), S(b));
    set_slot(i, &r); lp_value_destruct(&r); putchar('-'); return;
  }
  if (strcmp(op, "neg") == 0 || strcmp(op, "inv") == 0) {
    lp_value_t r; lp_value_construct_none(&r);
    if (op[0] == 'n') lp_value_neg(&r, S(atoi(f[2]))); else lp_value_inv(&r, S(atoi(f[2])));
    set_slot(i, &r); lp_value_destruct(&r); putchar('-'); return;
  }
  if (strcmp(op, "cp") == 0) {
    lp_value_t t; lp_value_construct_copy(&t, S(atoi(f[2]))); set_slot(i, &t); lp_value_destruct(&t); putchar('-'); return;
  }
  if (strcmp(op, "rc") == 0) {   /* destruct the slot, then construct it again from a copy taken before */
    lp_value_t t; lp_value_construct_copy(&t, S(i)); set_slot(i, NULL); set_slot(i, &t); lp_value_destruct(&t); putchar('-'); return;
  }
  if (strcmp(op, "ps") == 0) { printf("%d", sgn_of(lp_polynomial_sgn(P[i], M))); return; }
  if (strcmp(op, "pe") == 0) { lp_value_t* r = lp_polynomial_evaluate(P[i], M); print_rep(r); lp_value_delete(r); return; }
  if (strcmp(op, "pr") == 0) {
    size_t deg = lp_polynomial_degree(P[i]), n = 0;
    lp_value_t* roots = malloc((deg + 1) * sizeof(lp_value_t));
    lp_polynomial_roots_isolate(P[i], M, roots, &n);
    printf("%zu", n);
    for (size_t k = 0; k < n; ++k) { putchar(' '); print_rep(&roots[k]); lp_value_destruct(&roots[k]); }
    free(roots); return;
  }
  printf("UNKNOWN-OP");
}

static void run_case(void) {
  if (vntok < 3 + NS + NP || !is_op("c09")) { printf("UNKNOWN"); return; }
  alarm(15);   /* watchdog: a library call that never returns kills this case (= a crash, no partial line) */
  char mode = vtok[1][0];
  M = lp_assignment_new(pio_db);
  for (int i = 0; i < NS; ++i) {
    lp_value_t v;
    if (!vio_parse(&v, vtok[2 + i])) { printf("UNKNOWN bad pool token"); return; }
    set_slot(i, &v); lp_value_destruct(&v);
  }
  for (int k = 0; k < NP; ++k) P[k] = pio_new(vtok[2 + NS + k]);
  for (int i = 0; i < NS; ++i) lp_value_construct_copy(&U[i], S(i));
  bad_rep = 0;
  printf("init |"); print_reps();
  printf(" |"); print_untouched();
  int step = 0;
  for (int t = 3 + NS + NP; t < vntok; ++t, ++step) {
    printf(" #");
    do_op(vtok[t]);
    printf(" |"); print_reps();
    if (bad_rep) { printf(" ABORT"); break; }
    printf(" |"); battery(mode == 'C' || (mode == 'M' && step % 3 != 0));
    printf(" |"); print_reps();
    if (bad_rep) { printf(" ABORT"); break; }
  }
  if (!bad_rep) { printf(" $"); print_untouched(); }
  for (int i = 0; i < NS; ++i) lp_value_destruct(&U[i]);
  for (int k = 0; k < NP; ++k) lp_polynomial_delete(P[k]);
  lp_assignment_delete(M);
  /* everything of this case has been released: what is still allocated and unreachable was leaked by the library
     (e.g. a cache of remembered intervals that was never restored and freed) */
  if (__lsan_do_recoverable_leak_check()) printf(" LEAK");
}

int main(void) {
  /* a whole case is buffered and only flushed when it is complete: a crash in the middle leaves NO partial line */
  static char obuf[1 << 25];
  setvbuf(stdout, obuf, _IOFBF, sizeof obuf);
  pio_init(lp_Z);
  while (next_case()) {
    /* every case runs in its own child process: leaks, corrupted heaps and hangs of one history cannot reach the next.
       If the child does not end normally the driver dies too, without a line for this case (= crash of this case). */
    fflush(stdout);
    pid_t pid = fork();
    if (pid < 0) { perror("fork"); return 3; }
    if (pid == 0) { run_case(); putchar('\n'); fflush(stdout); _exit(0); }
    int st = 0;
    waitpid(pid, &st, 0);
    if (!(WIFEXITED(st) && WEXITSTATUS(st) == 0)) {
      fprintf(stderr, "c09: the case did not end normally (wait status 0x%x%s)\n", st,
              WIFSIGNALED(st) && WTERMSIG(st) == SIGALRM ? ": watchdog, a library call did not return within 15 s" : "");
      _exit(97);
    }
  }
  pio_done();
  free(vline);
  return 0;
}
