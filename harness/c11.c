/* C11 + C12 driver: root isolation under a partial assignment, feasible sets of polynomial and root
 * constraints, truth-value evaluators, and a C transcription of polyxx's infeasible_regions.
 *
 * case  := OP ORD POLY NA (VAR TOK)*  [ "|" model-only tokens ... ]
 *   ORD   comma separated variable indices, bottom first; the LAST one is the main variable y (top)
 *   POLY  polyio.h text; NA assigned variables follow as index + valio.h token
 *   OP    iso   R <n> <root>* R2 <n> <root>* Y <n> <restored>
 *         isof  { F <n> <root>* | K <sgn> }* (one per square-free factor of the model-based reductum, in the
 *               order of lp_polynomial_factor_square_free; F = factor in y with the roots coefficient_roots_isolate
 *               returns, K = factor without y with its sign)  R <n> <root>*  (what lp_polynomial_roots_isolate returns)
 *         fs    R <n> <root>* P <np> <probe>* { S <sc> <neg> <k> <interval>* C <bits> }x12 { N <sc> <k> <interval>* C <bits> }x6
 *                 E <6 bits per probe>*
 *         rc    R <n> <root>* P <np> <probe>* K <kmax> { S <k> <sc> <neg> <m> <interval>* C <bits> }* { E <k> <6 bits per probe>* }*
 *   interval := "P" <value> | "I" <value> <a_open> <value> <b_open>
 * Probes are chosen on the C side (its isolated roots, values between consecutive roots, one integer below and
 * one above all roots) and PRINTED, so that the model can re-derive the truth at exactly those values.  */
#include "polyio.h"
#include "valio.h"
#include <assignment.h>
#include <feasibility_set.h>
#include <interval.h>
#include <sign_condition.h>
#include "polynomial/feasibility_set.h"
#include "polynomial/polynomial.h"
#include "polynomial/coefficient.h"

static lp_assignment_t* M;
static int yidx;
static lp_variable_t yvar;
/* the operand is re-created (pio_new) in front of EVERY call under test, so that each call is the first one that
 * sees it: under VERIF_STALE=1 pio_new hands out an external polynomial still laid out for the reversed order,
 * which the call itself has to re-order (lp_polynomial_external_clean); the output must not depend on it */
static lp_polynomial_t* gA;
static const char* g_poly;
#define REBUILD() do { lp_polynomial_delete(gA); gA = pio_new(g_poly); } while (0)

static int parse_order(const char* s, int* perm) {
  int n = 0; const char* c = s;
  while (*c) { perm[n++] = (int) strtol(c, (char**)&c, 10); if (*c == ',') ++c; }
  return n;
}

/* returns the polynomial, sets the order and the assignment; *ok = 0 when a value token cannot be built */
static lp_polynomial_t* setup_case(int* ok) {
  int perm[PIO_NV]; int n = parse_order(vtok[1], perm);
  pio_set_order(perm, n);
  yidx = perm[n-1]; yvar = pio_x[yidx];
  g_poly = vtok[2];
  lp_polynomial_t* A = pio_new(vtok[2]);
  int na = atoi(vtok[3]);
  *ok = 1;
  for (int i = 0; i < PIO_NV; ++i) lp_assignment_set_value(M, pio_x[i], 0);
  for (int i = 0; i < na; ++i) {
    int v = atoi(vtok[4 + 2*i]);
    lp_value_t val;
    if (!vio_parse(&val, vtok[5 + 2*i])) { *ok = 0; break; }
    lp_assignment_set_value(M, pio_x[v], &val);
    lp_value_destruct(&val);
  }
  return A;
}

static void print_values(const char* tag, const lp_value_t* vs, size_t n) {
  printf("%s %zu", tag, n);
  for (size_t i = 0; i < n; ++i) { putchar(' '); vio_print(vs + i); }
}

static void print_interval(const lp_interval_t* I) {
  if (I->is_point) { printf(" P "); vio_print(&I->a); }
  else { printf(" I "); vio_print(&I->a); printf(" %d ", (int) I->a_open); vio_print(&I->b); printf(" %d", (int) I->b_open); }
}
static void print_set(const lp_feasibility_set_t* S) {
  printf(" %zu", S->size);
  for (size_t i = 0; i < S->size; ++i) print_interval(S->intervals + i);
}
static void print_contains(const lp_feasibility_set_t* S, const lp_value_t* probes, size_t np) {
  printf(" C ");
  for (size_t i = 0; i < np; ++i) putchar(lp_feasibility_set_contains(S, probes + i) ? '1' : '0');
  if (np == 0) putchar('-');
}

/* probes: one integer below all roots, each root, a value strictly between consecutive roots, one integer above;
 * without roots: -1 and 1 */
static lp_value_t* make_probes(const lp_value_t* roots, size_t n, size_t* np) {
  lp_value_t* p = malloc(sizeof(lp_value_t) * (2*n + 3));
  size_t k = 0;
  if (n == 0) {
    lp_value_construct_int(&p[k++], -1);
    lp_value_construct_int(&p[k++], 1);
  } else {
    lp_integer_t z; lp_integer_construct(&z);
    lp_value_floor(&roots[0], &z); lp_integer_dec(lp_Z, &z);
    lp_value_construct(&p[k++], LP_VALUE_INTEGER, &z);
    for (size_t i = 0; i < n; ++i) {
      lp_value_construct_copy(&p[k++], &roots[i]);
      if (i + 1 < n) {
        lp_value_construct_none(&p[k]);
        lp_value_get_value_between(&roots[i], 1, &roots[i+1], 1, &p[k]);
        ++k;
      }
    }
    lp_value_ceiling(&roots[n-1], &z); lp_integer_inc(lp_Z, &z);
    lp_value_construct(&p[k++], LP_VALUE_INTEGER, &z);
    lp_integer_destruct(&z);
  }
  *np = k;
  return p;
}
static void free_values(lp_value_t* v, size_t n) { for (size_t i = 0; i < n; ++i) lp_value_destruct(v + i); free(v); }

/* ---- line-by-line C transcription of poly::infeasible_regions (src/polyxx/polynomial.cpp) working on the
 *      feasible set the C library returned; Interval(a, ao, b, bo) == lp_interval_construct, Interval(v) == point */
typedef struct { lp_interval_t* v; size_t n, cap; } ivec_t;
static void ivec_push_iv(ivec_t* r, const lp_value_t* a, int ao, const lp_value_t* b, int bo) {
  if (r->n == r->cap) { r->cap = r->cap ? 2 * r->cap : 8; r->v = realloc(r->v, r->cap * sizeof(lp_interval_t)); }
  lp_interval_construct(&r->v[r->n++], a, ao, b, bo);
}
static void ivec_push_pt(ivec_t* r, const lp_value_t* a) {
  if (r->n == r->cap) { r->cap = r->cap ? 2 * r->cap : 8; r->v = realloc(r->v, r->cap * sizeof(lp_interval_t)); }
  lp_interval_construct_point(&r->v[r->n++], a);
}
static void infeasible_regions_c(const lp_feasibility_set_t* feasible, ivec_t* regions) {
  lp_value_t last_value, plus_inf; int last_open = 0;
  lp_value_construct(&last_value, LP_VALUE_MINUS_INFINITY, 0);
  lp_value_construct(&plus_inf, LP_VALUE_PLUS_INFINITY, 0);
  for (size_t i = 0; i < feasible->size; ++i) {
    const lp_interval_t* cur = &feasible->intervals[i];
    const lp_value_t* lower = &cur->a;
    if (lower->type == LP_VALUE_MINUS_INFINITY) {
      /* nothing */
    } else if (lp_value_cmp(&last_value, lower) < 0) {
      ivec_push_iv(regions, &last_value, !last_open, lower, !cur->a_open);
    } else if (last_open && cur->a_open && lp_value_cmp(&last_value, lower) == 0) {
      ivec_push_pt(regions, &last_value);
    }
    if (cur->is_point) { lp_value_assign(&last_value, lower); last_open = 0; }
    else { lp_value_assign(&last_value, &cur->b); last_open = cur->b_open; }
  }
  if (last_value.type != LP_VALUE_PLUS_INFINITY) ivec_push_iv(regions, &last_value, !last_open, &plus_inf, 1);
  lp_value_destruct(&last_value); lp_value_destruct(&plus_inf);
}

#define A gA
static void do_iso(void) {
  size_t deg = lp_polynomial_degree(A);
  lp_value_t* roots = malloc(sizeof(lp_value_t) * (deg + 1));
  size_t n = 0;
  REBUILD();
  lp_polynomial_roots_isolate(A, M, roots, &n);
  print_values("R", roots, n);
  for (size_t i = 0; i < n; ++i) lp_value_destruct(roots + i);
  /* again on the same (internally refined) assignment */
  n = 0;
  REBUILD();
  lp_polynomial_roots_isolate(A, M, roots, &n);
  putchar(' '); print_values("R2", roots, n);
  for (size_t i = 0; i < n; ++i) lp_value_destruct(roots + i);
  /* with y assigned: the value must be put back */
  lp_value_t seven; lp_value_construct_int(&seven, 7);
  lp_assignment_set_value(M, yvar, &seven);
  n = 0;
  REBUILD();
  lp_polynomial_roots_isolate(A, M, roots, &n);
  const lp_value_t* back = lp_assignment_get_value(M, yvar);
  int restored = back->type != LP_VALUE_NONE && lp_value_cmp(back, &seven) == 0;
  printf(" Y %zu %d", n, restored);
  for (size_t i = 0; i < n; ++i) lp_value_destruct(roots + i);
  lp_assignment_set_value(M, yvar, 0);
  lp_value_destruct(&seven);
  free(roots);
}

/* the front half of lp_polynomial_roots_isolate re-done with the library's own functions, to show the model of
 * the back half (gather / sort / de-duplicate, coq/FeasSweep.v roots_isolate_assemble) its inputs */
static void do_isof(void) {
  const lp_polynomial_context_t* ctx = lp_polynomial_get_context(A);
  lp_polynomial_t A_r; lp_polynomial_construct(&A_r, ctx);
  REBUILD();
  lp_polynomial_reductum_m(&A_r, A, M);
  lp_polynomial_t** factors = 0; size_t* mult = 0; size_t nf = 0;
  lp_polynomial_factor_square_free(&A_r, &factors, &mult, &nf);
  for (size_t f = 0; f < nf; ++f) {
    if (lp_polynomial_top_variable(factors[f]) == yvar) {
      size_t d = lp_polynomial_degree(factors[f]), n = 0;
      lp_value_t* rs = malloc(sizeof(lp_value_t) * (d + 1));
      coefficient_roots_isolate(ctx, &factors[f]->data, M, rs, &n);
      print_values("F", rs, n); putchar(' ');
      free_values(rs, n);
    } else {
      printf("K %d ", lp_polynomial_sgn(factors[f], M));
    }
  }
  for (size_t f = 0; f < nf; ++f) { lp_polynomial_destruct(factors[f]); free(factors[f]); }
  free(factors); free(mult);
  lp_polynomial_destruct(&A_r);
  size_t deg = lp_polynomial_degree(A), n = 0;
  lp_value_t* roots = malloc(sizeof(lp_value_t) * (deg + 1));
  REBUILD();
  lp_polynomial_roots_isolate(A, M, roots, &n);
  print_values("R", roots, n);
  free_values(roots, n);
}

static void do_fs(void) {
  size_t deg = lp_polynomial_degree(A);
  lp_value_t* roots = malloc(sizeof(lp_value_t) * (deg + 1));
  size_t n = 0, np = 0;
  REBUILD();
  lp_polynomial_roots_isolate(A, M, roots, &n);
  print_values("R", roots, n);
  lp_value_t* probes = make_probes(roots, n, &np);
  putchar(' '); print_values("P", probes, np);
  for (int sc = 0; sc < 6; ++sc) for (int neg = 0; neg < 2; ++neg) {
    REBUILD();
    lp_feasibility_set_t* S = lp_polynomial_constraint_get_feasible_set(A, (lp_sign_condition_t) sc, neg, M);
    printf(" S %d %d", sc, neg); print_set(S); print_contains(S, probes, np);
    lp_feasibility_set_delete(S);
  }
  for (int sc = 0; sc < 6; ++sc) {
    REBUILD();
    lp_feasibility_set_t* S = lp_polynomial_constraint_get_feasible_set(A, (lp_sign_condition_t) sc, 0, M);
    ivec_t reg = { 0, 0, 0 };
    infeasible_regions_c(S, &reg);
    printf(" N %d %zu", sc, reg.n);
    for (size_t i = 0; i < reg.n; ++i) print_interval(&reg.v[i]);
    printf(" C ");
    for (size_t j = 0; j < np; ++j) {
      int in = 0;
      for (size_t i = 0; i < reg.n; ++i) if (lp_interval_contains(&reg.v[i], probes + j)) in = 1;
      putchar(in ? '1' : '0');
    }
    for (size_t i = 0; i < reg.n; ++i) lp_interval_destruct(&reg.v[i]);
    free(reg.v);
    lp_feasibility_set_delete(S);
  }
  printf(" E");
  for (size_t j = 0; j < np; ++j) {
    lp_assignment_set_value(M, yvar, probes + j);
    putchar(' ');
    for (int sc = 0; sc < 6; ++sc) { REBUILD(); putchar(lp_polynomial_constraint_evaluate(A, (lp_sign_condition_t) sc, M) ? '1' : '0'); }
    lp_assignment_set_value(M, yvar, 0);
  }
  free_values(probes, np);
  free_values(roots, n);
}

static void do_rc(void) {
  size_t deg = lp_polynomial_degree(A);
  lp_value_t* roots = malloc(sizeof(lp_value_t) * (deg + 1));
  size_t n = 0, np = 0;
  REBUILD();
  lp_polynomial_roots_isolate(A, M, roots, &n);
  print_values("R", roots, n);
  lp_value_t* probes = make_probes(roots, n, &np);
  putchar(' '); print_values("P", probes, np);
  /* root indices 0 .. n+1 (n = number of roots): the last two are the "fewer roots" case; deg+1 when smaller */
  size_t kmax = n + 1 < deg + 1 ? n + 1 : deg + 1;
  printf(" K %zu", kmax);
  for (size_t k = 0; k <= kmax; ++k) for (int sc = 0; sc < 6; ++sc) for (int neg = 0; neg < 2; ++neg) {
    REBUILD();
    lp_feasibility_set_t* S = lp_polynomial_root_constraint_get_feasible_set(A, k, (lp_sign_condition_t) sc, neg, M);
    printf(" S %zu %d %d", k, sc, neg); print_set(S); print_contains(S, probes, np);
    lp_feasibility_set_delete(S);
  }
  for (size_t k = 0; k <= kmax; ++k) {
    printf(" E %zu", k);
    for (size_t j = 0; j < np; ++j) {
      lp_assignment_set_value(M, yvar, probes + j);
      putchar(' ');
      /* every call isolates the roots again: all six conditions where y is the k-th root itself or k is out of
       * range, two (rotating) conditions elsewhere; '.' = not evaluated */
      for (int sc = 0; sc < 6; ++sc) {
        int all = (j == 2*k + 1) || k >= n;
        if (all || sc == (int)((j + k) % 6) || sc == (int)((j + k + 3) % 6))
          { REBUILD(); putchar(lp_polynomial_root_constraint_evaluate(A, k, (lp_sign_condition_t) sc, M) ? '1' : '0'); }
        else putchar('.');
      }
      /* the evaluator must leave the assigned value in place */
      const lp_value_t* back = lp_assignment_get_value(M, yvar);
      if (back->type == LP_VALUE_NONE || lp_value_cmp(back, probes + j) != 0) putchar('!');
      lp_assignment_set_value(M, yvar, 0);
    }
  }
  free_values(probes, np);
  free_values(roots, n);
}

#undef A

int main(void) {
  pio_init(lp_Z);
  M = lp_assignment_new(pio_db);
  while (next_case()) {
    if (vntok < 4) { printf("UNKNOWN-OP"); end_case(); continue; }
    int ok;
    gA = setup_case(&ok);
    if (!ok) printf("BAD-VALUE");
    else if (lp_polynomial_is_constant(gA) || lp_polynomial_top_variable(gA) != yvar) printf("NOT-MAIN");
    else if (is_op("iso")) do_iso();
    else if (is_op("isof")) do_isof();
    else if (is_op("fs")) do_fs();
    else if (is_op("rc")) do_rc();
    else printf("UNKNOWN-OP");
    lp_polynomial_delete(gA);
    for (int i = 0; i < PIO_NV; ++i) lp_assignment_set_value(M, pio_x[i], 0);
    end_case();
  }
  lp_assignment_delete(M);
  pio_done();
  free(vline); free(pio_terms);
  return 0;
}
