/* C08 driver: lp_value_* through the public API.  One case per line, one result line per case.
 *
 * Every result line starts with the STATE of the input values as the library holds them right before the
 * observed call (vio_print of the struct: kind, polynomial, isolating interval), then " | ", then the results.
 * The model driver rebuilds its values from these states (value.c dispatches on them: point or interval,
 * degree of the polynomial, interval ends), after checking that each state denotes the number of the case.
 *
 * Calls the library documents as unsupported (they end in assert(0) or a GMP division by zero) are not made:
 * the driver prints UNDEF for them, and the model must agree that the case is undefined.
 * Extra input token of this driver: P:a/n = algebraic-TYPED dyadic point (lp_algebraic_number_construct_from_dyadic_rational).
 * Output operands: fresh (LP_VALUE_NONE) / pre-used with the value U of another kind / aliased with an input. */
#include "valio.h"
#include <unistd.h>

/* per-case watchdog: a case that does not return within this many seconds kills the driver (reported as a crash
 * on that case; the pipeline restarts the driver on the next case) */
#define CASE_SECONDS 20

static int parse_or_die(lp_value_t* v, const char* tok) {
  if (tok[0] == 'P' && tok[1] == ':') {
    /* P:a/n : an LP_VALUE_ALGEBRAIC value that is the dyadic point a/2^n from the start (f == NULL) */
    lp_dyadic_rational_t d; vio_dyadic(&d, tok + 2, NULL);
    lp_algebraic_number_t a; lp_algebraic_number_construct_from_dyadic_rational(&a, &d);
    lp_value_construct(v, LP_VALUE_ALGEBRAIC, &a);
    lp_algebraic_number_destruct(&a); lp_dyadic_rational_destruct(&d);
    return 1;
  }
  if (!vio_parse(v, tok)) { printf("BADTOKEN %s", tok); return 0; }
  return 1;
}
static void refine_k(lp_value_t* v, int k) {
  if (v->type == LP_VALUE_ALGEBRAIC) for (int i = 0; i < k; ++i) lp_algebraic_number_refine_const(&v->value.a);
}
static int is_inf(const lp_value_t* v) { return lp_value_is_infinity(v); }

typedef void (*bin_f)(lp_value_t*, const lp_value_t*, const lp_value_t*);

/* 1 when the library documents the call as unsupported */
static int bin_undef(const char* op, const lp_value_t* a, const lp_value_t* b) {
  if (strcmp(op, "add") == 0)
    return (a->type == LP_VALUE_PLUS_INFINITY && b->type == LP_VALUE_MINUS_INFINITY) ||
           (a->type == LP_VALUE_MINUS_INFINITY && b->type == LP_VALUE_PLUS_INFINITY);
  if (strcmp(op, "sub") == 0)
    return (a->type == LP_VALUE_PLUS_INFINITY && b->type == LP_VALUE_PLUS_INFINITY) ||
           (a->type == LP_VALUE_MINUS_INFINITY && b->type == LP_VALUE_MINUS_INFINITY);
  if (strcmp(op, "mul") == 0)
    return (is_inf(a) || is_inf(b)) && (lp_value_sgn(a) == 0 || lp_value_sgn(b) == 0);
  if (strcmp(op, "div") == 0) {
    if (is_inf(b)) return is_inf(a);       /* 1/inf = 0, inf * 0 unsupported */
    return lp_value_sgn(b) == 0;
  }
  return 0;
}

static void run_bin(const char* op, bin_f f) {
  /* op A B U */
  lp_value_t a, b, out;
  if (!parse_or_die(&a, vtok[1])) return;
  if (!parse_or_die(&b, vtok[2])) { lp_value_destruct(&a); return; }
  vio_print(&a); putchar(' '); vio_print(&b); printf(" |");
  if (bin_undef(op, &a, &b)) { printf(" UNDEF"); lp_value_destruct(&a); lp_value_destruct(&b); return; }
  lp_value_destruct(&a); lp_value_destruct(&b);
  for (int variant = 0; variant < 4; ++variant) {
    parse_or_die(&a, vtok[1]); parse_or_die(&b, vtok[2]);
    switch (variant) {
    case 0: lp_value_construct_none(&out); f(&out, &a, &b); putchar(' '); vio_print(&out); lp_value_destruct(&out); break;
    case 1: parse_or_die(&out, vtok[3]); f(&out, &a, &b); putchar(' '); vio_print(&out); lp_value_destruct(&out); break;
    case 2: f(&a, &a, &b); putchar(' '); vio_print(&a); break;
    case 3: f(&b, &a, &b); putchar(' '); vio_print(&b); break;
    }
    lp_value_destruct(&a); lp_value_destruct(&b);
  }
}

static unsigned g_pow;
static void op_neg(lp_value_t* r, const lp_value_t* a) { lp_value_neg(r, a); }
static void op_inv(lp_value_t* r, const lp_value_t* a) { lp_value_inv(r, a); }
static void op_pow(lp_value_t* r, const lp_value_t* a) { lp_value_pow(r, a, g_pow); }
typedef void (*un_f)(lp_value_t*, const lp_value_t*);

static void run_un(un_f f, int undef_if_zero, const char* utok) {
  lp_value_t a, out;
  if (!parse_or_die(&a, vtok[1])) return;
  vio_print(&a); printf(" |");
  if (undef_if_zero && !is_inf(&a) && lp_value_sgn(&a) == 0) { printf(" UNDEF"); lp_value_destruct(&a); return; }
  lp_value_destruct(&a);
  for (int variant = 0; variant < 3; ++variant) {
    parse_or_die(&a, vtok[1]);
    switch (variant) {
    case 0: lp_value_construct_none(&out); f(&out, &a); putchar(' '); vio_print(&out); lp_value_destruct(&out); break;
    case 1: parse_or_die(&out, utok); f(&out, &a); putchar(' '); vio_print(&out); lp_value_destruct(&out); break;
    case 2: f(&a, &a); putchar(' '); vio_print(&a); break;
    }
    lp_value_destruct(&a);
  }
}

int main(void) {
  while (next_case()) {
    alarm(CASE_SECONDS);
    if (vntok == 0) { end_case(); continue; }
    if (is_op("cmp") && vntok == 3) {
      lp_value_t a, b;
      if (parse_or_die(&a, vtok[1])) {
        if (parse_or_die(&b, vtok[2])) {
          vio_print(&a); putchar(' '); vio_print(&b); printf(" |");
          int ab = lp_value_cmp(&a, &b);
          int ba = lp_value_cmp(&b, &a);
          int aa = lp_value_cmp(&a, &a);
          /* a second object holding the same number */
          lp_value_t a2; lp_value_construct_copy(&a2, &a);
          int aa2 = lp_value_cmp(&a, &a2);
          printf(" %d %d %d %d", sgn_of(ab), sgn_of(ba), sgn_of(aa), sgn_of(aa2));
          lp_value_destruct(&a2); lp_value_destruct(&b);
        }
        lp_value_destruct(&a);
      }
    }
    else if (is_op("tri") && vntok == 4) {
      lp_value_t v[3]; int ok = 1, n = 0;
      for (; n < 3 && ok; ++n) ok = parse_or_die(&v[n], vtok[1 + n]);
      if (ok) {
        vio_print(&v[0]); putchar(' '); vio_print(&v[1]); putchar(' '); vio_print(&v[2]); printf(" |");
        for (int i = 0; i < 3; ++i) for (int j = 0; j < 3; ++j) if (i != j) printf(" %d", sgn_of(lp_value_cmp(&v[i], &v[j])));
      } else --n;
      for (int i = 0; i < n; ++i) lp_value_destruct(&v[i]);
    }
    else if (is_op("cmps") && vntok == 4) {
      /* cmps A X P : compare A with X first (this may refine A's isolating interval in place), then the SAME object
       * A with P in both orders; the state of A after the first comparison is printed so that the model sees which
       * interval the second comparison starts from */
      lp_value_t v[3]; int ok = 1, n = 0;
      for (; n < 3 && ok; ++n) ok = parse_or_die(&v[n], vtok[1 + n]);
      if (ok) {
        vio_print(&v[0]); putchar(' '); vio_print(&v[1]); putchar(' '); vio_print(&v[2]); printf(" |");
        int ax = lp_value_cmp(&v[0], &v[1]);
        int xa = lp_value_cmp(&v[1], &v[0]);
        printf(" %d %d ", sgn_of(ax), sgn_of(xa)); vio_print(&v[0]);
        int ap = lp_value_cmp(&v[0], &v[2]);
        int pa = lp_value_cmp(&v[2], &v[0]);
        printf(" %d %d", sgn_of(ap), sgn_of(pa));
      } else --n;
      for (int i = 0; i < n; ++i) lp_value_destruct(&v[i]);
    }
    else if (is_op("cmpt") && vntok == 4) {
      /* cmpt A B C : compare A and B in both orders, TWICE (the comparison may reduce the polynomials / refine the
       * intervals of both operands in place), print what the two objects hold afterwards, then compare each of them with
       * the third value C in both orders */
      lp_value_t v[3]; int ok = 1, n = 0;
      for (; n < 3 && ok; ++n) ok = parse_or_die(&v[n], vtok[1 + n]);
      if (ok) {
        vio_print(&v[0]); putchar(' '); vio_print(&v[1]); putchar(' '); vio_print(&v[2]); printf(" |");
        for (int r = 0; r < 2; ++r) {
          int ab = lp_value_cmp(&v[0], &v[1]);
          int ba = lp_value_cmp(&v[1], &v[0]);
          printf(" %d %d", sgn_of(ab), sgn_of(ba));
        }
        putchar(' '); vio_print(&v[0]); putchar(' '); vio_print(&v[1]);
        int ac = lp_value_cmp(&v[0], &v[2]);
        int ca = lp_value_cmp(&v[2], &v[0]);
        int bc = lp_value_cmp(&v[1], &v[2]);
        int cb = lp_value_cmp(&v[2], &v[1]);
        printf(" %d %d %d %d", sgn_of(ac), sgn_of(ca), sgn_of(bc), sgn_of(cb));
        printf(" %d %d", lp_value_is_rational(&v[0]) ? 1 : 0, lp_value_is_rational(&v[1]) ? 1 : 0);
      } else --n;
      for (int i = 0; i < n; ++i) lp_value_destruct(&v[i]);
    }
    else if (is_op("cmpq") && vntok == 3) {
      /* cmpq A q:n/d */
      lp_value_t a, q;
      if (parse_or_die(&a, vtok[1])) {
        if (parse_or_die(&q, vtok[2])) {
          vio_print(&a); printf(" |");
          if (q.type == LP_VALUE_RATIONAL) printf(" %d", sgn_of(lp_value_cmp_rational(&a, &q.value.q)));
          else printf(" BADTOKEN");
          lp_value_destruct(&q);
        }
        lp_value_destruct(&a);
      }
    }
    else if (is_op("obs") && vntok == 3) {
      /* obs A k : k refinement steps first (algebraic only); then the non-mutating queries, the sign last */
      lp_value_t a;
      if (parse_or_die(&a, vtok[1])) {
        refine_k(&a, atoi(vtok[2]));
        vio_print(&a); printf(" |");
        int isint = lp_value_is_integer(&a) ? 1 : 0, israt = lp_value_is_rational(&a) ? 1 : 0, isinf = is_inf(&a) ? 1 : 0;
        printf(" %d %d %d", isint, israt, isinf);
        if (!isinf) {
          lp_integer_t fl, ce; lp_integer_construct(&fl); mpz_init_set_str(&ce, "-98765432109876543210987", 10);
          lp_value_floor(&a, &fl); lp_value_ceiling(&a, &ce);
          putchar(' '); print_z(&fl); putchar(' '); print_z(&ce);
          lp_integer_destruct(&fl); lp_integer_destruct(&ce);
        } else printf(" - -");
        if (israt) {
          lp_rational_t q; lp_rational_construct_from_int(&q, 7, 3);
          lp_integer_t n, d; lp_integer_construct(&n); mpz_init_set_str(&d, "123456789012345678901234567", 10);
          lp_value_get_rational(&a, &q); lp_value_get_num(&a, &n); lp_value_get_den(&a, &d);
          putchar(' '); print_z(mpq_numref(&q)); putchar('/'); print_z(mpq_denref(&q));
          putchar(' '); print_z(&n); putchar(' '); print_z(&d);
          lp_rational_destruct(&q); lp_integer_destruct(&n); lp_integer_destruct(&d);
        } else printf(" - - -");
        printf(" %d", sgn_of(lp_value_sgn(&a)));
        lp_value_destruct(&a);
      }
    }
    else if (is_op("add") && vntok == 4) run_bin("add", lp_value_add);
    else if (is_op("sub") && vntok == 4) run_bin("sub", lp_value_sub);
    else if (is_op("mul") && vntok == 4) run_bin("mul", lp_value_mul);
    else if (is_op("div") && vntok == 4) run_bin("div", lp_value_div);
    else if (is_op("neg") && vntok == 3) run_un(op_neg, 0, vtok[2]);
    else if (is_op("inv") && vntok == 3) run_un(op_inv, 1, vtok[2]);
    else if (is_op("pow") && vntok == 4) { g_pow = (unsigned)strtoul(vtok[2], NULL, 10); run_un(op_pow, 0, vtok[3]); }
    else if (is_op("btw") && vntok == 6) {
      /* btw A sa B sb U */
      int sa = atoi(vtok[2]), sb = atoi(vtok[4]);
      lp_value_t a, b, out;
      if (parse_or_die(&a, vtok[1])) {
        if (parse_or_die(&b, vtok[3])) {
          vio_print(&a); putchar(' '); vio_print(&b); printf(" |");
          int undef = (sa || sb) && lp_value_cmp(&a, &b) == 0;
          lp_value_destruct(&b); lp_value_destruct(&a);
          if (undef) printf(" UNDEF");
          else for (int variant = 0; variant < 4; ++variant) {
            parse_or_die(&a, vtok[1]); parse_or_die(&b, vtok[3]);
            switch (variant) {
            case 0: lp_value_construct_none(&out); lp_value_get_value_between(&a, sa, &b, sb, &out); putchar(' '); vio_print(&out); lp_value_destruct(&out); break;
            case 1: parse_or_die(&out, vtok[5]); lp_value_get_value_between(&a, sa, &b, sb, &out); putchar(' '); vio_print(&out); lp_value_destruct(&out); break;
            case 2: lp_value_construct_copy(&out, &a); lp_value_get_value_between(&out, sa, &b, sb, &out); putchar(' '); vio_print(&out); lp_value_destruct(&out); break;
            case 3: lp_value_construct_copy(&out, &b); lp_value_get_value_between(&a, sa, &out, sb, &out); putchar(' '); vio_print(&out); lp_value_destruct(&out); break;
            }
            lp_value_destruct(&a); lp_value_destruct(&b);
          }
        } else lp_value_destruct(&a);
      }
    }
    else if (is_op("hash") && vntok >= 5) {
      /* hash A B k p1 p2 ... : A and B denote the same number; A refined k steps gives a third object */
      lp_value_t a, b, a2;
      if (parse_or_die(&a, vtok[1])) {
        if (parse_or_die(&b, vtok[2])) {
          lp_value_construct_copy(&a2, &a); refine_k(&a2, atoi(vtok[3]));
          vio_print(&a); putchar(' '); vio_print(&b); putchar(' '); vio_print(&a2); printf(" |");
          for (int i = 4; i < vntok; ++i) {
            unsigned p = (unsigned)strtoul(vtok[i], NULL, 10);
            size_t ha = lp_value_hash_approx(&a, p), hb = lp_value_hash_approx(&b, p), ha2 = lp_value_hash_approx(&a2, p);
            printf(" %zx:%zx:%zx", ha, hb, ha2);
          }
          if (lp_value_hash(&a) != lp_value_hash_approx(&a, 0)) printf(" HASH0-DIFFERS");
          lp_value_destruct(&a2); lp_value_destruct(&b);
        }
        lp_value_destruct(&a);
      }
    }
    else printf("UNKNOWN-OP");
    end_case();
  }
  free(vline);
  return 0;
}
