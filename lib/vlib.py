#!/usr/bin/env python3
"""Shared machinery of the /verif checks (see DESIGN.md section 2).

One check run =  build C from /repo working tree (sanitizers, hooks on)
              -> build Coq (full .vo) + hygiene gate + Print Assumptions gate
              -> extract model, build OCaml model driver
              -> generate cases (corpus first), run C driver and model driver
              -> compare, monitors, shrink, replay files, known findings
              -> evidence/<id>.json
"""
import os, sys, json, time, hashlib, subprocess, fcntl, re, shutil, random, glob

VERIF = os.path.dirname(os.path.dirname(os.path.abspath(__file__)))
REPO = os.environ.get("VERIF_REPO", "/repo")
BUILD = os.path.join(VERIF, "build")
COQ = os.path.join(VERIF, "coq")
GUARD = "LIBPOLY_VERIF"
NPROC = os.cpu_count() or 4

C_SOURCES = """utils/debug_trace.c utils/assignment.c utils/statistics.c utils/output.c
utils/sign_condition.c utils/u_memstream.c number/integer.c number/rational.c
number/dyadic_rational.c number/algebraic_number.c number/value.c interval/interval.c
interval/arithmetic.c variable/variable_db.c variable/variable_list.c variable/variable_order.c
upolynomial/umonomial.c upolynomial/upolynomial.c upolynomial/output.c
upolynomial/upolynomial_dense.c upolynomial/bounds.c upolynomial/gcd.c upolynomial/factors.c
upolynomial/factorization.c upolynomial/root_finding.c upolynomial/upolynomial_vector.c
polynomial/monomial.c polynomial/coefficient.c polynomial/output.c polynomial/gcd.c
polynomial/subres.c polynomial/factorization.c polynomial/polynomial.c
polynomial/polynomial_context.c polynomial/feasibility_set.c polynomial/feasibility_set_int.c
polynomial/polynomial_hash_set.c polynomial/polynomial_heap.c polynomial/polynomial_vector.c
poly.c""".split()

CFLAGS = ["-std=gnu99", "-O1", "-g", "-fno-omit-frame-pointer",
          "-fsanitize=address,undefined", "-fno-sanitize-recover=all",
          "-DHAVE_OPEN_MEMSTREAM", "-D" + GUARD, "-w"]


def log(*a):
    print("[verif]", *a, file=sys.stderr, flush=True)


class Lock:
    def __init__(self, name):
        os.makedirs(BUILD, exist_ok=True)
        self.path = os.path.join(BUILD, name + ".lock")

    def __enter__(self):
        self.f = open(self.path, "w")
        fcntl.flock(self.f, fcntl.LOCK_EX)
        return self

    def __exit__(self, *a):
        fcntl.flock(self.f, fcntl.LOCK_UN)
        self.f.close()


def sh(cmd, cwd=None, timeout=None, env=None, input=None):
    p = subprocess.run(cmd, cwd=cwd, timeout=timeout, env=env, input=input,
                       stdout=subprocess.PIPE, stderr=subprocess.STDOUT, text=True)
    return p.returncode, p.stdout


# --------------------------------------------------------------------------- C side

def tree_hash(paths, extra=""):
    h = hashlib.sha256()
    h.update(extra.encode())
    for root in paths:
        if os.path.isfile(root):
            files = [root]
        else:
            files = []
            for d, _, fs in os.walk(root):
                for f in fs:
                    if f.endswith((".c", ".h", ".cpp", ".in", ".ml", ".mli")):
                        files.append(os.path.join(d, f))
        for f in sorted(files):
            h.update(f.encode())
            with open(f, "rb") as fh:
                h.update(fh.read())
    return h.hexdigest()[:16]


def build_clib():
    """Build libpoly.a from /repo's *current working tree* with sanitizers and hooks on.
    Cached by content hash of src/ and include/ (so any edit of /repo rebuilds)."""
    src = os.path.join(REPO, "src")
    inc = os.path.join(REPO, "include")
    hsh = tree_hash([src, inc], " ".join(CFLAGS))
    out = os.path.join(BUILD, "clib-" + hsh)
    lib = os.path.join(out, "libpoly.a")
    with Lock("clib"):
        if os.path.exists(lib):
            return out
        # remove stale builds (keep the 2 most recent: a scratch repo may be checked in parallel)
        old = sorted(glob.glob(os.path.join(BUILD, "clib-*")), key=os.path.getmtime, reverse=True)
        for d in old[12:]:
            shutil.rmtree(d, ignore_errors=True)
        tmp = out + ".tmp"
        shutil.rmtree(tmp, ignore_errors=True)
        os.makedirs(tmp)
        t0 = time.time()
        procs = []
        objs = []
        for s in C_SOURCES:
            o = os.path.join(tmp, s.replace("/", "_")[:-2] + ".o")
            objs.append(o)
            cmd = ["gcc"] + CFLAGS + ["-I" + inc, "-I" + src, "-c", os.path.join(src, s), "-o", o]
            procs.append((s, subprocess.Popen(cmd, stdout=subprocess.PIPE, stderr=subprocess.STDOUT, text=True)))
        fail = []
        for s, p in procs:
            o, _ = p.communicate()
            if p.returncode != 0:
                fail.append((s, o))
        if fail:
            for s, o in fail:
                log("C compile error in", s, "\n", o[-3000:])
            shutil.rmtree(tmp, ignore_errors=True)
            raise BuildError("libpoly does not compile")
        rc, o = sh(["ar", "rcs", os.path.join(tmp, "libpoly.a")] + objs)
        if rc != 0:
            raise BuildError("ar failed: " + o)
        for o in objs:
            os.remove(o)
        os.rename(tmp, out)
        log("built libpoly (ASan+UBSan, -D%s) in %.1fs -> %s" % (GUARD, time.time() - t0, out))
    return out


class BuildError(Exception):
    pass


def build_cdriver(name, clib):
    """Compile harness/<name>.c against the freshly built libpoly.a"""
    srcf = os.path.join(VERIF, "harness", name + ".c")
    common = sorted(glob.glob(os.path.join(VERIF, "harness", "*.h")))
    hsh = tree_hash([srcf] + common, os.path.basename(clib))
    outd = os.path.join(BUILD, "drv-" + name + "-" + hsh)
    exe = os.path.join(outd, name)
    with Lock("drv-" + name):
        if os.path.exists(exe):
            return exe
        old = sorted(glob.glob(os.path.join(BUILD, "drv-" + name + "-*")), key=os.path.getmtime, reverse=True)
        for d in old[12:]:
            shutil.rmtree(d, ignore_errors=True)
        os.makedirs(outd)
        cmd = ["gcc"] + CFLAGS + ["-I" + os.path.join(REPO, "include"), "-I" + os.path.join(REPO, "src"),
                                   "-I" + os.path.join(VERIF, "harness"), srcf,
                                   os.path.join(clib, "libpoly.a"), "-lgmp", "-lm", "-o", exe + ".tmp"]
        rc, o = sh(cmd)
        if rc != 0:
            shutil.rmtree(outd, ignore_errors=True)
            log(o[-4000:])
            raise BuildError("harness %s does not compile against the current tree" % name)
        os.rename(exe + ".tmp", exe)
    return exe


# --------------------------------------------------------------------------- Coq side

HYGIENE_RE = re.compile(
    r"\b(Admitted|admit|Axiom|Axioms|Parameter|Parameters|Conjecture|Admit Obligations)\b"
    r"|Unset\s+Guard|Unset\s+Positivity|Unset\s+Universe|bypass_check|type-in-type|impredicative-set"
    r"|native_compute")

ALLOWED_AXIOMS = {
    # standard-library axioms that may appear (named in DESIGN.md section 6); none expected
    "Coq.Logic.FunctionalExtensionality.functional_extensionality_dep",
    "FunctionalExtensionality.functional_extensionality_dep",
    "functional_extensionality_dep",
    "Eqdep.Eq_rect_eq.eq_rect_eq", "Coq.Logic.Eqdep.Eq_rect_eq.eq_rect_eq", "eq_rect_eq",
    "JMeq_eq", "Coq.Logic.JMeq.JMeq_eq",
}


def strip_comments(src):
    out = []
    depth = 0
    i = 0
    n = len(src)
    while i < n:
        if src.startswith("(*", i):
            depth += 1
            i += 2
        elif src.startswith("*)", i) and depth > 0:
            depth -= 1
            i += 2
        else:
            if depth == 0:
                out.append(src[i])
            elif src[i] == "\n":
                out.append("\n")
            i += 1
    return "".join(out)


def coq_hygiene():
    """grep gate over the whole development (comments stripped)."""
    bad = []
    for f in sorted(glob.glob(os.path.join(COQ, "*.v"))):
        if os.path.basename(f).startswith("Goal_tmp"):
            continue
        txt = strip_comments(open(f).read())
        for ln, line in enumerate(txt.split("\n"), 1):
            if HYGIENE_RE.search(line):
                bad.append("%s:%d: %s" % (os.path.basename(f), ln, line.strip()))
        # Variable / Hypothesis outside a section
        depth = 0
        for ln, line in enumerate(txt.split("\n"), 1):
            s = line.strip()
            if re.match(r"Section\s+\w+", s):
                depth += 1
            elif re.match(r"End\s+\w+\s*\.", s) and depth > 0:
                depth -= 1
            elif depth == 0 and re.match(r"(Variable|Variables|Hypothesis|Hypotheses|Context)\b", s):
                bad.append("%s:%d: top-level %s" % (os.path.basename(f), ln, s))
    return bad


def coq_files():
    return sorted(os.path.basename(f) for f in glob.glob(os.path.join(COQ, "*.v")) if not os.path.basename(f).startswith("Goal_tmp"))


def _read_fragment(f):
    mods, names = [], []
    for line in open(f):
        line = line.strip()
        if not line or line.startswith("#"):
            continue
        if line.startswith("Require:"):
            for m in line[len("Require:"):].split():
                if m not in mods:
                    mods.append(m)
        else:
            for n in line.split():
                if n not in names:
                    names.append(n)
    return mods, names


def extract_props():
    """properties that have an extraction fragment coq/extract.d/<P>.txt (00base.txt is shared by all)"""
    return sorted(os.path.basename(f)[:-4] for f in glob.glob(os.path.join(COQ, "extract.d", "*.txt"))
                  if not os.path.basename(f).startswith("00"))


def gen_extract():
    """coq/Extract_<P>.v is generated per property from coq/extract.d/00base.txt + coq/extract.d/<P>.txt
    (first line 'Require: M1 M2', then names).  Each property gets its own OCaml module model_<p>.ml, so that
    equal names in the models of different properties never clash."""
    base = os.path.join(COQ, "extract.d", "00base.txt")
    bmods, bnames = _read_fragment(base) if os.path.exists(base) else ([], [])
    want = set()
    for P in extract_props():
        mods, names = _read_fragment(os.path.join(COQ, "extract.d", P + ".txt"))
        mods = bmods + [m for m in mods if m not in bmods]
        names = bnames + [n for n in names if n not in bnames]
        txt = ("(* GENERATED by lib/vlib.py from coq/extract.d/00base.txt and %s.txt - do not edit.\n"
               "   ExtrOcamlBasic only (bool, option, unit, list, prod, sumbool -> OCaml's); Z/positive/N/nat stay the\n"
               "   extracted inductive types; no Extract Constant / Extract Inductive of our own. *)\n"
               "From Coq Require Import ZArith List Extraction ExtrOcamlBasic.\n"
               "From LP Require Import %s.\n"
               "Set Warnings \"-extraction-opaque-accessed\".\n"
               "Extraction \"model_%s.ml\"\n  %s.\n" % (P, " ".join(mods), P.lower(), "\n  ".join(names)))
        pf = os.path.join(COQ, "Extract_%s.v" % P)
        want.add(pf)
        if not os.path.exists(pf) or open(pf).read() != txt:
            open(pf, "w").write(txt)
    for f in glob.glob(os.path.join(COQ, "Extract*.v")):
        if f not in want:
            os.remove(f)
            for ext in (".vo", ".glob", ".vok", ".vos"):
                if os.path.exists(f[:-2] + ext):
                    os.remove(f[:-2] + ext)


def build_coq(targets=None, clean=False):
    """Full .vo build (never -vos).  Returns (ok, log)."""
    with Lock("coq"):
        gen_extract()
        if clean:
            # clean rebuild of exactly the files the requested targets depend on (coqdep -sort), so that a thorough run
            # of one property re-proves its whole dependency cone without invalidating the others
            roots = [t[:-3] + ".v" for t in (targets or []) if t.endswith(".vo") and os.path.exists(os.path.join(COQ, t[:-3] + ".v"))]
            if roots:
                rc, o = sh(["coqdep", "-Q", ".", "LP", "-sort"] + roots, cwd=COQ)
                cone = [os.path.basename(x) for x in o.split() if x.endswith(".v")]
            else:
                cone = coq_files()
            for v in cone:
                for ext in (".vo", ".vok", ".vos", ".glob", ".assum"):
                    f = os.path.join(COQ, v[:-2] + ext)
                    if os.path.exists(f):
                        os.remove(f)
        proj = "-Q . LP\n" + "\n".join(coq_files()) + "\n"
        pf = os.path.join(COQ, "_CoqProject")
        if not os.path.exists(pf) or open(pf).read() != proj:
            open(pf, "w").write(proj)
        if (not os.path.exists(os.path.join(COQ, "Makefile.coq"))
                or os.path.getmtime(os.path.join(COQ, "Makefile.coq")) < os.path.getmtime(pf)):
            rc, o = sh(["coq_makefile", "-f", "_CoqProject", "-o", "Makefile.coq"], cwd=COQ)
            if rc != 0:
                return False, o
        tg = targets or []
        rc, o = sh(["timeout", "3000", "make", "-f", "Makefile.coq", "-k", "-j%d" % NPROC] + tg, cwd=COQ)
        return rc == 0, o


def coq_assumptions(prop):
    """Compile-time output of `Print Assumptions` under every theorem of Properties_<prop>.v.
    The output is captured by re-running coqc on that one file (all dependencies are built)."""
    f = "Properties_%s.v" % prop
    if not os.path.exists(os.path.join(COQ, f)):
        return None
    cache = os.path.join(COQ, "Properties_%s.assum" % prop)
    vo = os.path.join(COQ, "Properties_%s.vo" % prop)
    with Lock("coq"):
        # the output of coqc on this file (its Print Assumptions lines) is cached against the .vo that make produced
        if (os.path.exists(cache) and os.path.exists(vo) and os.path.getmtime(cache) >= os.path.getmtime(vo)
                and os.path.getmtime(vo) >= os.path.getmtime(os.path.join(COQ, f))):
            rc, o = 0, open(cache).read()
        else:
            rc, o = sh(["timeout", "1800", "coqc", "-Q", ".", "LP", f], cwd=COQ)
            if rc == 0:
                open(cache, "w").write(o)
    src = strip_comments(open(os.path.join(COQ, f)).read())
    theorems = re.findall(r"^\s*Theorem\s+(\w+)", src, re.M)
    printed = re.findall(r"Print\s+Assumptions\s+(\w+)", src)
    res = {"ok": rc == 0, "theorems": theorems, "printed": printed, "axioms": {}, "raw": o[-6000:]}
    # parse blocks: "Closed under the global context" or "Axioms:\n name : type ..."
    blocks = re.split(r"(?=Closed under the global context|Axioms:)", o)
    blocks = [b for b in blocks if b.startswith("Closed under") or b.startswith("Axioms:")]
    for name, b in zip(printed, blocks):
        if b.startswith("Closed under"):
            res["axioms"][name] = []
        else:
            ax = re.findall(r"^([A-Za-z_][\w.']*)\s*:", b, re.M)
            res["axioms"][name] = ax
    res["complete"] = (len(blocks) == len(printed)) and set(theorems) <= set(printed)
    return res


def coqchk(prop):
    """Independent re-check of Properties_<prop>.vo and everything it depends on (thorough tier)."""
    with Lock("coq"):
        rc, o = sh(["timeout", "3000", "coqchk", "-o", "-silent", "-Q", ".", "LP", "LP.Properties_%s" % prop], cwd=COQ)
    m = re.search(r"\* Axioms:(.*?)\n\s*\n\* Constants", o, re.S)
    axioms = [a.strip() for a in (m.group(1).split("\n") if m else []) if a.strip() and a.strip() != "<none>"]
    return {"ok": rc == 0, "axioms_of_loaded_libraries": axioms, "tail": o[-1500:]}


# --------------------------------------------------------------------------- OCaml side

MDRIVER_ML = """(* GENERATED: model driver of one property.  Reads cases on stdin (one per line), prints one result
   line each.  A case carries the implementation's output after " => " (for checker-style operations). *)
let () =
  let run = %s.run in
  (try
    while true do
      let line = input_line stdin in
      let all = %s.split_ws line in
      let rec cut acc = function
        | [] -> (List.rev acc, [])
        | "=>" :: rest -> (List.rev acc, rest)
        | t :: rest -> cut (t :: acc) rest in
      let (toks, cout) = cut [] all in
      let out = try run toks cout with
        | Stack_overflow -> "MODEL-ERROR stack overflow"
        | e -> "MODEL-ERROR " ^ Printexc.to_string e in
      print_string out; print_newline ()
    done
  with End_of_file -> ())
"""


def build_mdriver(prop):
    """Build the OCaml model driver of one property from coq/model_<p>.ml (its own extraction), ocaml/io.ml,
    ocaml/p_<p>.ml and the helper modules p_<p>.ml mentions.  Sources are written against `Model` / `Io`;
    they are compiled per property with those module names mapped to Model_<p> / Io_<p>."""
    low = prop.lower()
    mld = os.path.join(BUILD, "ml", prop)
    exe = os.path.join(mld, "mdriver")
    with Lock("ml-" + prop):
        model_src = os.path.join(COQ, "model_%s.ml" % low)
        drv = os.path.join(VERIF, "ocaml", "p_%s.ml" % low)
        if not os.path.exists(model_src):
            raise BuildError("extraction did not produce model_%s.ml" % low)
        if not os.path.exists(drv):
            raise BuildError("no ocaml/p_%s.ml" % low)
        drv_txt = open(drv).read()
        helpers = []
        for s in sorted(glob.glob(os.path.join(VERIF, "ocaml", "*.ml"))):
            b = os.path.basename(s)[:-3]
            if b == "io" or b.startswith("p_") or b == "mdriver":
                continue
            if re.search(r"\b%s\b" % (b[0].upper() + b[1:]), drv_txt):
                helpers.append(s)
        deps = [model_src, model_src + "i", os.path.join(VERIF, "ocaml", "io.ml"), drv] + helpers
        stamp = os.path.join(mld, "stamp")
        sig = tree_hash(deps)
        if os.path.exists(exe) and os.path.exists(stamp) and open(stamp).read() == sig:
            return exe
        shutil.rmtree(mld, ignore_errors=True)
        os.makedirs(mld)
        M, I = "Model_" + low, "Io_" + low

        def subst(txt):
            txt = re.sub(r"\bModel\b", M, txt)
            txt = re.sub(r"\bIo\b", I, txt)
            return txt
        shutil.copy(model_src, os.path.join(mld, "model_%s.ml" % low))
        shutil.copy(model_src + "i", os.path.join(mld, "model_%s.mli" % low))
        open(os.path.join(mld, "io_%s.ml" % low), "w").write(subst(open(os.path.join(VERIF, "ocaml", "io.ml")).read()))
        order = ["model_%s.mli" % low, "model_%s.ml" % low, "io_%s.ml" % low]
        for h in helpers:
            open(os.path.join(mld, os.path.basename(h)), "w").write(subst(open(h).read()))
            order.append(os.path.basename(h))
        open(os.path.join(mld, "p_%s.ml" % low), "w").write(subst(drv_txt))
        order.append("p_%s.ml" % low)
        open(os.path.join(mld, "mdriver.ml"), "w").write(MDRIVER_ML % ("P_" + low, I))
        order.append("mdriver.ml")
        rc, o = sh(["ocamlfind", "ocamlopt", "-inline", "100", "-w", "-a", "-package", "zarith",
                    "-linkpkg"] + order + ["-o", "mdriver.tmp"], cwd=mld)
        if rc != 0:
            log(o[-4000:])
            raise BuildError("OCaml model driver of %s does not build" % prop)
        os.rename(os.path.join(mld, "mdriver.tmp"), exe)
        open(stamp, "w").write(sig)
    return exe


# --------------------------------------------------------------------------- running drivers

SAN_ENV = {"ASAN_OPTIONS": "detect_leaks=1:abort_on_error=0:exitcode=97:allocator_may_return_null=1",
           "UBSAN_OPTIONS": "print_stacktrace=1:halt_on_error=1:exitcode=98",
           "LSAN_OPTIONS": "exitcode=96"}


def run_driver(exe, args, lines, timeout=600, per_case_restart=True, extra_env=None):
    """Feed `lines` (one case per line) to a driver that prints exactly one line per case.
    If the driver dies on case k, record the crash for k and restart from k+1.
    Returns (outputs list (None = crashed), crashes list of (index, stderr tail))."""
    outs = [None] * len(lines)
    crashes = []
    start = 0
    env = dict(os.environ)
    env.update(SAN_ENV)
    if extra_env:
        env.update(extra_env)
    restarts = 0
    leak_reports = []
    while start < len(lines):
        chunk = lines[start:]
        try:
            p = subprocess.run([exe] + args, input="\n".join(chunk) + "\n", env=env, timeout=timeout,
                               stdout=subprocess.PIPE, stderr=subprocess.PIPE, text=True, errors="replace")
            rc, so, se = p.returncode, p.stdout, p.stderr
        except subprocess.TimeoutExpired as e:
            so = e.stdout.decode(errors="replace") if isinstance(e.stdout, bytes) else (e.stdout or "")
            se = "TIMEOUT after %ds" % timeout
            rc = -999
        got = so.split("\n")
        if got and got[-1] == "":
            got.pop()
        k = min(len(got), len(chunk))
        if k < len(chunk) and rc == 0:
            pass   # driver stopped early without an error code: treated as a crash on the next case
        for i in range(k):
            outs[start + i] = got[i]
        if k == len(chunk):
            # all cases answered; LeakSanitizer may have reported at exit
            if "LeakSanitizer" in se:
                leak_reports.append(se[-3000:])
            break
        # crash on case start+k (its output line is missing or partial)
        crashes.append((start + k, se[-3000:], rc))
        if start + k < len(lines):
            outs[start + k] = None
        start = start + k + 1
        restarts += 1
        if restarts > 50:
            break
    # A driver that died WITHOUT any diagnostic (no sanitizer report, no assertion message: e.g. killed from outside, or its
    # per-case watchdog fired on an overloaded machine) is re-run once on the blamed case together with the 200 cases before
    # it, in a fresh process.  A crash that belongs to the library reproduces (same input, same process history) and stays
    # a crash; one that does not reproduce is recorded in TRANSIENT and the answer of the re-run is used.
    if 0 < len(crashes) <= 5:
        kept = []
        for (k, se, rc) in crashes:
            diagnostic = re.search(r"Sanitizer|runtime error|Assertion|assert|SUMMARY|heap-|stack-|SEGV", se or "")
            if diagnostic or k >= len(lines):
                kept.append((k, se, rc)); continue
            lo = max(0, k - 200)
            try:
                p = subprocess.run([exe] + args, input="\n".join(lines[lo:k + 1]) + "\n", env=env, timeout=timeout,
                                   stdout=subprocess.PIPE, stderr=subprocess.PIPE, text=True, errors="replace")
                got = p.stdout.split("\n")
                if got and got[-1] == "":
                    got.pop()
                if len(got) == k + 1 - lo and got[:-1] == [o for o in outs[lo:k]]:
                    outs[k] = got[-1]
                    TRANSIENT.append("%s: case #%d died without diagnostic (rc %s) and did not reproduce in a fresh process" % (os.path.basename(exe), k, rc))
                    continue
            except subprocess.TimeoutExpired:
                pass
            kept.append((k, se, rc))
        crashes = kept
    return outs, crashes, leak_reports


TRANSIENT = []


def compare_outputs(G, cases, couts, mouts, crashes):
    """The comparison rule of the correspondence.  Returns (bad [(index, kind, detail)], out_of_fuel, protocol_errors)."""
    bad, fuel, model_err = [], 0, 0
    cmpf = getattr(G, "compare", None)
    for i, (c, co, mo) in enumerate(zip(cases, couts, mouts)):
        if co is None:
            cr = [x for x in crashes if x[0] == i]
            bad.append((i, "crash", cr[0][1] if cr else "driver died"))
            continue
        if mo is None:
            model_err += 1
            continue
        if mo.startswith("FUEL") or mo.startswith("MODEL-ERROR"):
            fuel += 1
            continue
        if mo.startswith("UNKNOWN") or co.startswith("UNKNOWN"):
            model_err += 1
            continue
        if mo.startswith("SKIP"):
            continue
        if cmpf:
            ok = cmpf(c, co, mo)
        elif mo.startswith("CHECK"):
            ok = mo.startswith("CHECK ok")
        else:
            ok = (co == mo)
        if not ok:
            bad.append((i, "mismatch", None))
    return bad, fuel, model_err


# --------------------------------------------------------------------------- findings

def load_findings():
    """known_findings.txt:  'finding: property=Cxx key=<regex over case line> <text>'
                            'fixed: property=Cxx <commit> <text>'   (suppresses nothing)"""
    res = []
    p = os.path.join(VERIF, "known_findings.txt")
    if not os.path.exists(p):
        return res
    for line in open(p):
        line = line.strip()
        if not line or line.startswith("#"):
            continue
        m = re.match(r"finding:\s+property=(\w+)\s+id=(\S+)\s+(.*)$", line)
        if m:
            res.append({"property": m.group(1), "id": m.group(2), "text": m.group(3)})
    return res


# --------------------------------------------------------------------------- evidence

def write_evidence(prop, ev):
    # evidence/ describes runs against /repo itself; a run against a scratch tree (VERIF_REPO, used by the seeded-change
    # tools) writes its evidence under build/ so that it can never end up in the committed evidence files
    d = os.path.join(VERIF, "evidence")
    if os.path.realpath(REPO) != os.path.realpath("/repo"):
        d = os.path.join(VERIF, "build", "evidence-scratch", re.sub(r"[^A-Za-z0-9_.-]", "_", os.path.realpath(REPO)))
    os.makedirs(d, exist_ok=True)
    p = os.path.join(d, prop + ".json")
    tmp = p + ".tmp%d" % os.getpid()
    with open(tmp, "w") as f:
        json.dump(ev, f, indent=1, sort_keys=True)
    os.replace(tmp, p)
    return p
